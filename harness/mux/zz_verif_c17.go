package mux

import (
	"context"
	"io"

	"github.com/plgd-dev/go-coap/v3/message"
	"github.com/plgd-dev/go-coap/v3/message/codes"
	"github.com/plgd-dev/go-coap/v3/message/pool"
)

// C17 (partial) — dispatch logic of the router for route sets built through the real Handle from a small pattern
// language (literal segments, {var}, {var:[0-9]+}); the regular-expression engine itself is evaluated by the host on
// concrete strings. Oracle: an independent segment-wise matcher written here.

type zzRW struct{ code codes.Code }

func (w *zzRW) SetResponse(code codes.Code, cf message.MediaType, d io.ReadSeeker, opts ...message.Option) error {
	w.code = code
	return nil
}
func (w *zzRW) Conn() Conn                  { return nil }
func (w *zzRW) SetMessage(m *pool.Message) {}
func (w *zzRW) Message() *pool.Message     { return nil }

// literals with regular-expression metacharacters (in a variable-free pattern, after the last variable, before a
// variable) must be matched literally
var zzPatterns = []string{"/a", "/a/b", "/a/{id}", "/{x}/b", "/a/{n:[0-9]+}", "/a/{id}/c", "/", "/a.b", "/{x}/v1.0", "/d.e/{id}", "/a/{m:[0-9]*}"}
var zzPaths = []string{"/a", "/a/b", "/a/7", "/x/b", "/c", "", "/a/{id}", "/a/7/c", "/a/b/", "/a.b", "/axb", "/q/v1.0", "/q/v1x0", "/d.e/7", "/dxe/7", "/a/"}

func zzSplit(s string) []string {
	var out []string
	start := 0
	for i := 0; i <= len(s); i++ {
		if i == len(s) || s[i] == '/' {
			out = append(out, s[start:i])
			start = i + 1
		}
	}
	return out
}

// zzMatch: does pattern match the entire path; vars = variable bindings
func zzMatch(pattern, path string) (bool, map[string]string) {
	ps, xs := zzSplit(pattern), zzSplit(path)
	if len(ps) != len(xs) {
		return false, nil
	}
	vars := map[string]string{}
	for i := range ps {
		p, x := ps[i], xs[i]
		if len(p) >= 2 && p[0] == '{' && p[len(p)-1] == '}' {
			inner := p[1 : len(p)-1]
			name, digits := inner, false
			for j := 0; j < len(inner); j++ {
				if inner[j] == ':' {
					name, digits = inner[:j], true
					break
				}
			}
			// a variable takes at least one character - unless its own expression allows none ([0-9]*)
			mayBeEmpty := digits && inner[len(inner)-1] == '*'
			if x == "" && !mayBeEmpty {
				return false, nil
			}
			if digits {
				for j := 0; j < len(x); j++ {
					if x[j] < '0' || x[j] > '9' {
						return false, nil
					}
				}
			}
			vars[name] = x
		} else if p != x {
			return false, nil
		}
	}
	return true, vars
}

func zzC17_dispatch() {
	r := NewRouter()
	invoked := []string{}
	var gotVars map[string]string
	var gotTemplate string
	var chosen []string
	n := symParam("routes", 3)
	for i := 0; i < n; i++ {
		k := symChoose("pattern", len(zzPatterns)+1)
		if k == len(zzPatterns) {
			continue
		}
		p := zzPatterns[k]
		dup := false
		for _, c := range chosen {
			if c == p {
				dup = true
			}
		}
		if dup {
			symAssume(false)
		}
		chosen = append(chosen, p)
		symAssert(r.Handle(p, HandlerFunc(func(w ResponseWriter, m *Message) {
			invoked = append(invoked, p)
			gotVars = m.RouteParams.Vars
			gotTemplate = m.RouteParams.PathTemplate
		})) == nil, "registration succeeds")
	}
	r.DefaultHandle(HandlerFunc(func(w ResponseWriter, m *Message) { invoked = append(invoked, "<default>") }))
	order := []int{}
	r.Use(func(h Handler) Handler {
		return HandlerFunc(func(w ResponseWriter, m *Message) { order = append(order, 1); h.ServeCOAP(w, m) })
	}, func(h Handler) Handler {
		return HandlerFunc(func(w ResponseWriter, m *Message) { order = append(order, 2); h.ServeCOAP(w, m) })
	})
	stale := false // set when the handler first registered for a re-registered pattern runs
	reRegistered := ""
	switch symChoose("remove", 3) {
	case 1:
		if len(chosen) > 0 {
			symAssert(r.HandleRemove(chosen[0]) == nil, "removal of a registered pattern succeeds")
			chosen = chosen[1:]
			symCover("removed")
		}
	case 2:
		// a pattern that is already registered is registered again with another handler: the new one replaces it
		if len(chosen) > 0 {
			p := chosen[len(chosen)-1]
			reRegistered = p
			symAssert(r.Handle(p, HandlerFunc(func(w ResponseWriter, m *Message) {
				invoked = append(invoked, p)
				gotVars = m.RouteParams.Vars
				gotTemplate = m.RouteParams.PathTemplate
				stale = false
			})) == nil, "registering a pattern again succeeds")
			stale = true // until the new handler proves to be the one that runs
			symCover("re-registered")
		}
	}
	path := zzPaths[symChoose("path", len(zzPaths))]
	req := &Message{Message: pool.NewMessage(context.Background()), RouteParams: new(RouteParams)}
	if path != "" {
		_ = req.SetPath(path)
		if len(path) > 1 && path[len(path)-1] == '/' {
			// SetPath drops empty segments; a peer can still send one: an empty Uri-Path option at the end
			req.AddOptionString(message.URIPath, "")
			symCover("empty-last-segment")
		}
	}
	eff, _ := req.Options().Path()
	if eff == "" {
		eff = "/"
	}
	r.ServeCOAP(&zzRW{}, req)
	symAssert(len(invoked) == 1, "dispatch invokes exactly one handler")
	if len(invoked) != 1 {
		return
	}
	// oracle
	best := -1
	anyMatch := false
	for _, p := range chosen {
		if ok, _ := zzMatch(p, eff); ok {
			anyMatch = true
			if len(p) > best {
				best = len(p)
			}
		}
	}
	if !anyMatch {
		symCover("default")
		symAssert(invoked[0] == "<default>", "the default handler runs exactly when nothing matches")
	} else {
		symCover("matched")
		symAssert(invoked[0] != "<default>", "a registered handler runs when some pattern matches")
		ok, vars := zzMatch(invoked[0], eff)
		symAssert(ok, "the invoked route's pattern matches the entire path")
		symAssert(len(invoked[0]) == best, "no other matching pattern is longer")
		if ok {
			same := len(vars) == len(gotVars)
			for k, v := range vars {
				if gotVars[k] != v {
					same = false
				}
			}
			symAssert(same, "route variables equal the corresponding substrings of the path")
			symAssert(gotTemplate == invoked[0], "the path template is the matched pattern")
		}
	}
	symAssert(len(order) == 2 && order[0] == 1 && order[1] == 2, "middlewares wrap the handler in registration order")
	if reRegistered != "" && invoked[0] == reRegistered {
		symAssert(!stale, "a pattern registered again dispatches to the handler registered last")
	}
}

func zzC17_braces() {
	n := symChoose("len", symParam("maxlen", 5)+1)
	s := symString("s", n)
	for i := 0; i < n; i++ {
		symAssume(s[i] == '{' || s[i] == '}' || s[i] == 'a')
	}
	idxs, err := braceIndices(s)
	// reference: a counter
	level, bad := 0, false
	var want []int
	start := 0
	for i := 0; i < n; i++ {
		if s[i] == '{' {
			level++
			if level == 1 {
				start = i
			}
		} else if s[i] == '}' {
			level--
			if level == 0 {
				want = append(want, start, i+1)
			} else if level < 0 {
				bad = true
				break
			}
		}
	}
	if level != 0 {
		bad = true
	}
	symAssert((err != nil) == bad, "unbalanced braces are refused, balanced ones accepted")
	if !bad && err == nil {
		symCover("balanced")
		same := len(idxs) == len(want)
		if same {
			for i := range want {
				if idxs[i] != want[i] {
					same = false
				}
			}
		}
		symAssert(same, "brace index pairs are the top-level balanced pairs")
	}
}

// one goroutine changes the route set (adds a pattern, removes one, replaces the default handler) while another
// dispatches a request: exactly one handler runs, a registered handler only for a pattern that matches the whole
// path, and the outcome is the one of the route set before or after the change
func zzC17_concurrent() {
	r := NewRouter()
	var invoked [2][]string
	mk := func(name string) Handler {
		return HandlerFunc(func(w ResponseWriter, m *Message) {
			d := int(m.MessageID())
			invoked[d] = append(invoked[d], name)
		})
	}
	base := []string{"/a", "/a/{id}"}
	for _, p := range base {
		_ = r.Handle(p, mk(p))
	}
	r.DefaultHandle(mk("<default>"))
	path := []string{"/a", "/a/b", "/c"}[symChoose("path", 3)]
	change := symChoose("change", 5)
	// a third party: nothing, a second dispatch, a second change, or a reader of the route table
	third := symChoose("third", 4)
	after := append([]string(nil), base...)
	defAfter := "<default>"
	done, want := 0, 2
	go func() {
		switch change {
		case 0: // a longer, more specific pattern appears
			_ = r.Handle("/a/b", mk("/a/b"))
			after = append(after, "/a/b")
		case 1: // a pattern disappears
			_ = r.HandleRemove("/a/{id}")
			after = []string{"/a"}
		case 2: // the default handler is replaced
			r.DefaultHandle(mk("<default2>"))
			defAfter = "<default2>"
		case 3: // a pattern's handler is replaced
			_ = r.Handle("/a", mk("/a"))
		case 4: // registered through the convenience wrappers
			r.HandleFunc("/a/b", func(w ResponseWriter, m *Message) { invoked[int(m.MessageID())] = append(invoked[int(m.MessageID())], "/a/b") })
			after = append(after, "/a/b")
		}
		done++
	}()
	dispatch := func(d int, p string) {
		req := &Message{Message: pool.NewMessage(context.Background()), RouteParams: new(RouteParams)}
		req.SetMessageID(int32(d))
		_ = req.SetPath(p)
		r.ServeCOAP(&zzRW{}, req)
		done++
	}
	go dispatch(0, path)
	switch third {
	case 1:
		want = 3
		go dispatch(1, "/a/b")
	case 2:
		want = 3
		go func() {
			_ = r.HandleRemove("/zz")
			r.DefaultHandleFunc(func(w ResponseWriter, m *Message) {
				invoked[int(m.MessageID())] = append(invoked[int(m.MessageID())], "<default3>")
			})
			done++
		}()
	case 3:
		want = 3
		go func() {
			_ = r.GetRoute("/a")
			_ = len(r.GetRoutes())
			done++
		}()
	}
	symWaitUntil(func() bool { return done == want })
	symCover("joined")
	symAssert(len(invoked[0]) == 1, "dispatch invokes exactly one handler")
	if third == 1 {
		symAssert(len(invoked[1]) == 1, "dispatch invokes exactly one handler")
		if len(invoked[1]) == 1 {
			g := invoked[1][0]
			symAssert(g == "/a/{id}" || g == "/a/b" || g == "<default>" || g == "<default2>", "a registered handler is only invoked for a pattern that matches the entire path")
		}
	}
	if len(invoked[0]) != 1 {
		return
	}
	pick := func(set []string, def string) string {
		best, name := -1, def
		for _, p := range set {
			if ok, _ := zzMatch(p, path); ok && len(p) > best {
				best, name = len(p), p
			}
		}
		return name
	}
	got := invoked[0][0]
	if got != "<default>" && got != "<default2>" && got != "<default3>" {
		ok, _ := zzMatch(got, path)
		symAssert(ok, "a registered handler is only invoked for a pattern that matches the entire path")
	}
	if third == 2 && got == "<default3>" {
		symAssert(pick(base, "<d>") == "<d>" || pick(after, "<d>") == "<d>", "the default handler is invoked only when nothing matches")
		return
	}
	symAssert(got == pick(base, "<default>") || got == pick(after, defAfter) || got == pick(after, "<default>") || got == pick(base, defAfter),
		"the outcome is the one of the route set before or after the concurrent change")
}

func zzC17_selftest() {
	r := NewRouter()
	hit := 0
	_ = r.Handle("/a", HandlerFunc(func(w ResponseWriter, m *Message) { hit++ }))
	req := &Message{Message: pool.NewMessage(context.Background()), RouteParams: new(RouteParams)}
	_ = req.SetPath("/a")
	r.ServeCOAP(&zzRW{}, req)
	symAssert(hit == 0, "selftest: must fail")
}

// litmus for the data-race oracle: Router.Use appends to the middleware list without the lock and ServeCOAP reads
// it without the lock - the two are not among the operations the property lists as concurrent, which makes the pair
// a ready-made race in the unchanged code. The oracle must report it (a silent oracle would pass everything).
func zzC17_race_selftest() {
	r := NewRouter()
	_ = r.Handle("/a", HandlerFunc(func(w ResponseWriter, m *Message) {}))
	done := 0
	go func() {
		r.Use(func(h Handler) Handler { return h })
		done++
	}()
	go func() {
		req := &Message{Message: pool.NewMessage(context.Background()), RouteParams: new(RouteParams)}
		_ = req.SetPath("/a")
		r.ServeCOAP(&zzRW{}, req)
		done++
	}()
	symWaitUntil(func() bool { return done == 2 })
}
