package pool

import (
	"bytes"
	"context"

	"github.com/plgd-dev/go-coap/v3/message"
)

type zzRefOpt struct {
	id message.OptionID
	v  []byte
}

func zzRefAdd(l []zzRefOpt, o zzRefOpt) []zzRefOpt {
	pos := len(l)
	for i := range l {
		if l[i].id > o.id {
			pos = i
			break
		}
	}
	out := make([]zzRefOpt, 0, len(l)+1)
	out = append(out, l[:pos]...)
	out = append(out, o)
	out = append(out, l[pos:]...)
	return out
}

func zzRefRemove(l []zzRefOpt, id message.OptionID) []zzRefOpt {
	out := make([]zzRefOpt, 0, len(l))
	for _, e := range l {
		if e.id != id {
			out = append(out, e)
		}
	}
	return out
}

func zzUintBytes(v uint32) []byte {
	switch {
	case v == 0:
		return []byte{}
	case v <= 0xff:
		return []byte{byte(v)}
	case v <= 0xffff:
		return []byte{byte(v >> 8), byte(v)}
	case v <= 0xffffff:
		return []byte{byte(v >> 16), byte(v >> 8), byte(v)}
	}
	return []byte{byte(v >> 24), byte(v >> 16), byte(v >> 8), byte(v)}
}

func zzSameOpts(o message.Options, ref []zzRefOpt) bool {
	if len(o) != len(ref) {
		return false
	}
	same := true
	for i := range ref {
		if o[i].ID != ref[i].id || !bytes.Equal(o[i].Value, ref[i].v) {
			same = false
		}
	}
	return same
}

// typed setters on a pooled message whose inline value buffer (256 bytes) is nearly full: every option written
// earlier still reads back byte-exact after later edits force the buffer to grow; then Reset and reuse
func zzC15_builder() {
	m := NewMessage(context.Background())
	fill := 244 + symChoose("fill", 4)*3 // 244, 247, 250, 253 of the 256 inline bytes are used up first
	big := make([]byte, fill)
	for i := range big {
		big[i] = byte(i)
	}
	big[0], big[fill-1] = symU8("big0"), symU8("bigN")
	m.AddOptionBytes(2000, big)
	ref := []zzRefOpt{{2000, append([]byte(nil), big...)}}
	k := symParam("ops", 2)
	ids := []message.OptionID{message.ETag, 2001, 2000}
	for i := 0; i < k; i++ {
		id := ids[symChoose("id", 3)]
		n := symChoose("vlen", symParam("maxvlen", 8)+1)
		val := symBytes("v", n)
		switch symChoose("op", 5) {
		case 0:
			m.AddOptionBytes(id, val)
			ref = zzRefAdd(ref, zzRefOpt{id, append([]byte(nil), val...)})
		case 1:
			m.SetOptionBytes(id, val)
			ref = zzRefAdd(zzRefRemove(ref, id), zzRefOpt{id, append([]byte(nil), val...)})
		case 2:
			m.AddOptionString(id, string(val))
			ref = zzRefAdd(ref, zzRefOpt{id, append([]byte(nil), val...)})
		case 3:
			u := symU32("u")
			m.SetOptionUint32(id, u)
			ref = zzRefAdd(zzRefRemove(ref, id), zzRefOpt{id, zzUintBytes(u)})
		case 4:
			m.Remove(id)
			ref = zzRefRemove(ref, id)
		}
		symAssert(zzSameOpts(m.Options(), ref), "after each edit the option list equals the reference list (values byte-exact, earlier values unaffected)")
	}
	symCover("edited")
	// clone keeps the content
	c := NewMessage(context.Background())
	if err := m.Clone(c); err == nil {
		symAssert(zzSameOpts(c.Options(), ref), "Clone copies the option list")
	}
	// reset and reuse
	m.Reset()
	symAssert(len(m.Options()) == 0, "Reset empties the option list")
	v2 := symBytes("w", 3)
	m.AddOptionBytes(message.ETag, v2)
	symAssert(zzSameOpts(m.Options(), []zzRefOpt{{message.ETag, v2}}), "a reset message can be reused")
	symAssert(zzSameOpts(c.Options(), ref) || len(c.Options()) != len(ref), "the clone is independent of the original's reuse")
}

// SetPath on a pooled message that already carries a path and options with higher numbers, with the inline value
// buffer nearly full (the first attempt reports "too small" and is retried with a bigger buffer), and with a path
// that is refused (a 256-byte segment): the list always equals the reference - a refused edit changes nothing
func zzC15_builder_path() {
	m := NewMessage(context.Background())
	fill := symChoose("fill", 2) * 250 // 0: plenty of room; 250: the new path does not fit the inline buffer
	ref := []zzRefOpt{}
	if fill > 0 {
		big := make([]byte, fill)
		m.AddOptionBytes(2000, big)
		ref = zzRefAdd(ref, zzRefOpt{2000, big})
		symCover("buffer-nearly-full")
	}
	symAssert(m.SetPath("/old/p") == nil, "initial path")
	ref = zzRefAdd(zzRefAdd(ref, zzRefOpt{message.URIPath, []byte("old")}), zzRefOpt{message.URIPath, []byte("p")})
	m.SetContentFormat(message.AppOctets)
	ref = zzRefAdd(ref, zzRefOpt{message.ContentFormat, zzUintBytes(uint32(message.AppOctets))})
	m.SetAccept(message.AppCBOR)
	ref = zzRefAdd(ref, zzRefOpt{message.Accept, zzUintBytes(uint32(message.AppCBOR))})
	symAssert(zzSameOpts(m.Options(), ref), "set-up equals the reference")
	switch symChoose("newpath", 3) {
	case 0: // a path of a decided small length
		seg := symString("seg", 1+symChoose("seglen", 8))
		for k := 0; k < len(seg); k++ {
			symAssume(seg[k] != '/')
		}
		err := m.SetPath("/n/" + seg)
		symAssert(err == nil, "a path with short segments is accepted")
		ref = zzRefAdd(zzRefAdd(zzRefRemove(ref, message.URIPath), zzRefOpt{message.URIPath, []byte("n")}), zzRefOpt{message.URIPath, []byte(seg)})
		symCover("replaced")
	case 1: // a segment of 256 bytes is refused
		long := make([]byte, 256)
		for k := range long {
			long[k] = 'x'
		}
		err := m.SetPath("/n/" + string(long))
		symAssert(err != nil, "a 256-byte segment is refused")
		symCover("refused")
	case 2: // the empty path changes nothing
		symAssert(m.SetPath("") == nil, "the empty path is accepted")
		symCover("empty")
	}
	symAssert(zzSameOpts(m.Options(), ref), "after SetPath the option list equals the reference list: the path replaced (or, when refused, untouched), every other option kept exactly once")
	p, err := m.Path()
	symAssert(err == nil && len(p) > 0 && p[0] == '/', "Path answers consistently")
}

func zzC15_builder_selftest() {
	m := NewMessage(context.Background())
	v := symBytes("v", 2)
	m.AddOptionBytes(message.ETag, v)
	symAssert(m.Options()[0].Value[0] == 7, "selftest: must fail")
}

// a message's own option list - filtered, with options that were inserted out of option-number order - handed back to
// ResetOptionsTo: the values are copied before anything they live in is reused, so they stay byte-exact
func zzC15_reset_own() {
	m := NewMessage(context.Background())
	q := symBytes("query", 3)
	e := symBytes("etag", 4)
	order := symChoose("insertion-order", 2)
	if order == 0 {
		m.AddOptionBytes(message.URIQuery, q)
		m.SetOptionBytes(message.ETag, e)
		symCover("descending-insertion")
	} else {
		m.SetOptionBytes(message.ETag, e)
		m.AddOptionBytes(message.URIQuery, q)
	}
	m.SetObserve(5)
	drop := []message.OptionID{message.Observe, message.ETag, 0}[symChoose("dropped", 3)]
	filtered := make(message.Options, 0, 4)
	var ref []zzRefOpt
	for _, o := range m.Options() {
		if o.ID != drop {
			filtered = append(filtered, o)
			ref = append(ref, zzRefOpt{o.ID, append([]byte(nil), o.Value...)})
		}
	}
	m.ResetOptionsTo(filtered)
	symCover("reset-to-own-options")
	symAssert(zzSameOpts(m.Options(), ref), "the options are exactly the ones handed in, values byte-exact")
	// and once more with the result itself
	m.ResetOptionsTo(m.Options())
	symAssert(zzSameOpts(m.Options(), ref), "resetting a message to its own options changes nothing")
}
