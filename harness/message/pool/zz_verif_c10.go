package pool

import (
	"context"

	"github.com/plgd-dev/go-coap/v3/udp/coder"
)

// C10 / C02: one syntactically valid datagram with very many options (more than any fixed growth cap of the
// pooled option slice) is decoded, or refused, in bounded work - it must not keep the reader busy forever
func zzC10_many_options() {
	n := []int{17, 300, 1100}[symChoose("options", 3)]
	d := []byte{0x40, 0x01, 0x12, 0x34, 0x10} // CON GET, no token, first option: If-Match (1), empty
	for i := 1; i < n; i++ {
		d = append(d, 0x00) // another empty If-Match
	}
	m := NewMessage(context.Background())
	used, err := m.UnmarshalWithDecoder(coder.DefaultCoder, d)
	symCover("decoded")
	symAssert(err != nil || (used == len(d) && len(m.Options()) == n), "a datagram with many options is decoded completely or refused")
}
