package message

import "errors"

// C01 layer 1 — header lemmas on the full domain.

func zzExtLen(v int) int {
	if v >= 269 {
		return 2
	}
	if v >= 13 {
		return 1
	}
	return 0
}

// option header: marshalOptionHeader and the parse steps of Options.Unmarshal are inverse for every
// delta 0..65535, length 0..65804 and every destination length 0..6
func zzC01_optheader() {
	delta := symInt("delta")
	length := symInt("length")
	symAssume(delta >= 0 && delta <= 65535)
	symAssume(length >= 0 && length <= 65804)
	bl := symChoose("buflen", 7)
	buf := make([]byte, bl)
	n, err := marshalOptionHeader(buf, delta, length)
	symObserve("n", n)
	symObserve("err", err != nil)
	want := 1 + zzExtLen(delta) + zzExtLen(length)
	symAssert(n == want, "option header size is 1 + extension bytes")
	if bl >= want {
		symCover("fits")
		symAssert(err == nil, "option header fits: no error")
		d := int(buf[0] >> 4)
		l := int(buf[0] & 0x0f)
		symAssert(d != ExtendOptionError && l != ExtendOptionError, "nibble 15 never produced")
		p1, d2, e1 := parseExtOpt(buf[1:], d)
		symAssert(e1 == nil && d2 == delta, "delta parses back")
		p2, l2, e2 := parseExtOpt(buf[1+p1:], l)
		symAssert(e2 == nil && l2 == length, "length parses back")
		symAssert(1+p1+p2 == n, "parser consumes exactly the bytes written")
	} else {
		symCover("short")
		symAssert(errors.Is(err, ErrTooSmall), "short destination reports ErrTooSmall with the needed size")
	}
}

// uint option values: minimal-length big-endian, decode(encode(v)) == v for all 2^32 values
func zzC01_uint32() {
	v := symU32("v")
	bl := symChoose("buflen", 6)
	buf := make([]byte, bl)
	n, err := EncodeUint32(buf, v)
	want := 4
	switch {
	case v == 0:
		want = 0
	case v <= 0xff:
		want = 1
	case v <= 0xffff:
		want = 2
	case v <= 0xffffff:
		want = 3
	}
	symObserve("n", n)
	symAssert(n == want, "EncodeUint32 uses the minimal length")
	if bl >= want {
		symCover("fits")
		symAssert(err == nil, "EncodeUint32 fits")
		got, used, derr := DecodeUint32(buf[:n])
		symAssert(derr == nil && got == v && used == n, "DecodeUint32(EncodeUint32(v)) == v")
	} else {
		symCover("short")
		symAssert(errors.Is(err, ErrTooSmall), "EncodeUint32 short buffer")
	}
}

func zzC01_selftest() {
	v := symU32("v")
	buf := make([]byte, 2)
	_, err := EncodeUint32(buf, v)
	symAssert(err == nil, "selftest: must fail (values above 65535 need more than 2 bytes)")
}

// an option whose header needs both extensions at once - a delta of 13 or more and a value of 13 or more bytes
// (Proxy-Uri as the first option, any high-numbered option with a longer value): the list encodes and decodes back
// to the same numbers and bytes. Value lengths this long lie beyond the symbolic-length bounds of the round-trip
// harnesses, so they are taken from the classes' borders here.
func zzC01_both_extensions() {
	id := []OptionID{13, 35, 268, 269, 300, 2000, 65000}[symChoose("number", 7)]
	n := []int{13, 14, 20, 268, 269, 300}[symChoose("value-length", 6)]
	val := make([]byte, n)
	head := symBytes("value-head", 3)
	copy(val, head)
	val[n-1] = head[2] ^ 0x55
	opts := Options{{ID: id, Value: val}}
	if symChoose("second-option", 2) == 1 {
		opts = append(opts, Option{ID: id + 14, Value: val[:13]})
	}
	buf := make([]byte, 1024)
	used, err := opts.Marshal(buf)
	symAssert(err == nil, "the option list is encoded")
	if err != nil {
		return
	}
	out := make(Options, 0, 4)
	read, err := out.Unmarshal(buf[:used], map[OptionID]OptionDef{})
	symCover("both-extensions")
	symAssert(err == nil && read == used, "what was encoded is decoded completely")
	symAssert(len(out) == len(opts), "same number of options")
	if err == nil && len(out) == len(opts) {
		for i := range opts {
			same := out[i].ID == opts[i].ID && len(out[i].Value) == len(opts[i].Value)
			if same {
				for j := range opts[i].Value {
					if out[i].Value[j] != opts[i].Value[j] {
						same = false
					}
				}
			}
			symAssert(same, "option numbers and values survive the round trip when both header extensions are used")
		}
	}
}
