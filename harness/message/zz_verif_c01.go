package message

import "errors"

// C01 layer 1 — header lemmas on the full domain.

func zzExtLen(v int) int {
	if v >= 269 {
		return 2
	}
	if v >= 13 {
		return 1
	}
	return 0
}

// option header: marshalOptionHeader and the parse steps of Options.Unmarshal are inverse for every
// delta 0..65535, length 0..65804 and every destination length 0..6
func zzC01_optheader() {
	delta := symInt("delta")
	length := symInt("length")
	symAssume(delta >= 0 && delta <= 65535)
	symAssume(length >= 0 && length <= 65804)
	bl := symChoose("buflen", 7)
	buf := make([]byte, bl)
	n, err := marshalOptionHeader(buf, delta, length)
	symObserve("n", n)
	symObserve("err", err != nil)
	want := 1 + zzExtLen(delta) + zzExtLen(length)
	symAssert(n == want, "option header size is 1 + extension bytes")
	if bl >= want {
		symCover("fits")
		symAssert(err == nil, "option header fits: no error")
		d := int(buf[0] >> 4)
		l := int(buf[0] & 0x0f)
		symAssert(d != ExtendOptionError && l != ExtendOptionError, "nibble 15 never produced")
		p1, d2, e1 := parseExtOpt(buf[1:], d)
		symAssert(e1 == nil && d2 == delta, "delta parses back")
		p2, l2, e2 := parseExtOpt(buf[1+p1:], l)
		symAssert(e2 == nil && l2 == length, "length parses back")
		symAssert(1+p1+p2 == n, "parser consumes exactly the bytes written")
	} else {
		symCover("short")
		symAssert(errors.Is(err, ErrTooSmall), "short destination reports ErrTooSmall with the needed size")
	}
}

// uint option values: minimal-length big-endian, decode(encode(v)) == v for all 2^32 values
func zzC01_uint32() {
	v := symU32("v")
	bl := symChoose("buflen", 6)
	buf := make([]byte, bl)
	n, err := EncodeUint32(buf, v)
	want := 4
	switch {
	case v == 0:
		want = 0
	case v <= 0xff:
		want = 1
	case v <= 0xffff:
		want = 2
	case v <= 0xffffff:
		want = 3
	}
	symObserve("n", n)
	symAssert(n == want, "EncodeUint32 uses the minimal length")
	if bl >= want {
		symCover("fits")
		symAssert(err == nil, "EncodeUint32 fits")
		got, used, derr := DecodeUint32(buf[:n])
		symAssert(derr == nil && got == v && used == n, "DecodeUint32(EncodeUint32(v)) == v")
	} else {
		symCover("short")
		symAssert(errors.Is(err, ErrTooSmall), "EncodeUint32 short buffer")
	}
}

func zzC01_selftest() {
	v := symU32("v")
	buf := make([]byte, 2)
	_, err := EncodeUint32(buf, v)
	symAssert(err == nil, "selftest: must fail (values above 65535 need more than 2 bytes)")
}
