package noresponse

import "github.com/plgd-dev/go-coap/v3/message/codes"

// C20 — RFC 7967: a response is "not of interest" exactly when the bit of its class is set in the option value:
// 2 for 2.xx, 8 for 4.xx, 16 for 5.xx. Oracle written from the RFC table only (class = code >> 5).
func zzC20_rfc(code uint16, v uint32) bool {
	if code > 255 {
		return false
	}
	switch code >> 5 {
	case 2:
		return v&2 != 0
	case 4:
		return v&8 != 0
	case 5:
		return v&16 != 0
	}
	return false
}

func zzC20_code() {
	code := symU16("code")
	v := symU32("v")
	err := IsNoResponseCode(codes.Code(code), v)
	symObserve("refused", err != nil)
	want := zzC20_rfc(code, v)
	if want {
		symCover("suppressed")
		symAssert(err != nil, "response of a class marked not-of-interest is refused")
	} else {
		symCover("wanted")
		symAssert(err == nil, "response of a class that was not suppressed is accepted")
	}
}

// history independence: the answer for one request does not depend on the No-Response values of the requests
// handled before it in the same process (the decision tables are package-level state)
func zzC20_sequence() {
	// every combination of the three class bits; the thorough tier adds the two reserved low bits (all 32 values)
	first := []uint32{0, 2, 8, 10, 16, 18, 24, 26}[symChoose("earlier-class-bits", 8)]
	if symParam("values", 8) > 8 {
		first |= []uint32{0, 1, 4, 5}[symChoose("earlier-reserved-bits", 4)]
	}
	_ = IsNoResponseCode(codes.Content, first)
	_ = IsNoResponseCode(codes.InternalServerError, first)
	code := symU16("code")
	v := symU32("v")
	err := IsNoResponseCode(codes.Code(code), v)
	want := zzC20_rfc(code, v)
	if want {
		symCover("suppressed-after-history")
		symAssert(err != nil, "response of a class marked not-of-interest is refused, whatever was decided before")
	} else {
		symCover("wanted-after-history")
		symAssert(err == nil, "response of a class that was not suppressed is accepted, whatever was decided before")
	}
}

func zzC20_selftest() {
	code := symU16("code")
	v := symU32("v")
	symAssert(IsNoResponseCode(codes.Code(code), v) == nil, "selftest: must fail")
}
