package message

// C02 on the option list parser shared by both coders: for every byte string up to the bound, Options.Unmarshal
// accepts exactly what a reference parser written from RFC 7252 section 3.1 accepts - in particular it refuses an
// option whose cumulative number exceeds 65535 - and yields the same option numbers and values.

type zzParsedOpt struct {
	id         int
	start, end int
}

// zzRefOptions: ok=false means "must be refused"; stop = bytes consumed (incl. a payload marker)
func zzRefOptions(data []byte) (ok bool, opts []zzParsedOpt, stop int) {
	prev := 0
	i := 0
	for i < len(data) {
		if data[i] == 0xff {
			return true, opts, i + 1
		}
		d, l := int(data[i]>>4), int(data[i]&0x0f)
		if d == 15 || l == 15 {
			return false, nil, 0
		}
		i++
		ext := func(v int) (int, bool) {
			switch v {
			case 13:
				if i+1 > len(data) {
					return 0, false
				}
				r := int(data[i]) + 13
				i++
				return r, true
			case 14:
				if i+2 > len(data) {
					return 0, false
				}
				r := int(data[i])<<8 + int(data[i+1]) + 269
				i += 2
				return r, true
			}
			return v, true
		}
		var good bool
		if d, good = ext(d); !good {
			return false, nil, 0
		}
		if l, good = ext(l); !good {
			return false, nil, 0
		}
		if i+l > len(data) {
			return false, nil, 0
		}
		id := prev + d
		if id > 65535 {
			return false, nil, 0 // option numbers are 16-bit
		}
		if id != 0 {
			opts = append(opts, zzParsedOpt{id, i, i + l})
		}
		i += l
		prev = id
	}
	return true, opts, i
}

func zzC02_options() {
	n := symChoose("len", symParam("maxlen", 6)+1)
	data := symBytes("options", n)
	out := make(Options, 0, n+1)
	used, err := out.Unmarshal(data, map[OptionID]OptionDef{})
	ok, ref, stop := zzRefOptions(data)
	symObserve("accept", err == nil)
	if !ok {
		symCover("refused")
		symAssert(err != nil, "the option parser refuses what the reference refuses (truncated option, reserved nibble 15, option number beyond 65535)")
		return
	}
	symCover("accepted")
	symAssert(err == nil, "the option parser accepts what the reference accepts")
	if err != nil {
		return
	}
	symAssert(used == stop, "and consumes the same bytes")
	symAssert(len(out) == len(ref), "same number of options")
	if len(out) == len(ref) {
		same := true
		asc := true
		for k := range ref {
			if int(out[k].ID) != ref[k].id || len(out[k].Value) != ref[k].end-ref[k].start {
				same = false
			} else {
				for j := range out[k].Value {
					if out[k].Value[j] != data[ref[k].start+j] {
						same = false
					}
				}
			}
			if k > 0 && out[k-1].ID > out[k].ID {
				asc = false
			}
		}
		symAssert(same, "option numbers and values equal the reference")
		symAssert(asc, "option numbers never decrease")
	}
}

// the reserved option-length nibble 15 is a message format error for every delta nibble - also when enough bytes
// follow for it to be mistaken for a literal length of 15 (a case that byte strings of the other harnesses' lengths
// cannot reach: it needs 15 value bytes behind the header)
func zzC02_options_reserved_length() {
	first := symU8("first")
	symAssume(first&0x0f == 0x0f && first>>4 != 0x0f)
	rest := symBytes("rest", 19)
	data := append([]byte{first}, rest...)
	out := make(Options, 0, 4)
	_, err := out.Unmarshal(data, map[OptionID]OptionDef{})
	symCover("reserved-length-nibble")
	symAssert(err != nil, "an option header with the reserved length nibble 15 is refused")
	ok, _, _ := zzRefOptions(data)
	symAssert(!ok, "and the reference refuses it too")
}
