package message

import (
	"bytes"
	"errors"
)

// C15 — reference model: a list sorted by option number, insertion order kept among equal numbers.

type zzOpt struct {
	id uint16
	v  byte
}

func zzRefAdd(l []zzOpt, o zzOpt) []zzOpt {
	pos := len(l)
	for i := range l {
		if l[i].id > o.id {
			pos = i
			break
		}
	}
	out := make([]zzOpt, 0, len(l)+1)
	out = append(out, l[:pos]...)
	out = append(out, o)
	out = append(out, l[pos:]...)
	return out
}

func zzRefRemove(l []zzOpt, id uint16) []zzOpt {
	out := make([]zzOpt, 0, len(l))
	for _, e := range l {
		if e.id != id {
			out = append(out, e)
		}
	}
	return out
}

func zzRefSet(l []zzOpt, o zzOpt) []zzOpt { return zzRefAdd(zzRefRemove(l, o.id), o) }

func zzRefFind(l []zzOpt, id uint16) (first, last int) {
	first, last = -1, -1
	for i, e := range l {
		if e.id == id {
			if first < 0 {
				first = i
			}
			last = i + 1
		}
	}
	return
}

// zzState builds an arbitrary sorted option list of n one-byte-valued options with the given spare capacity.
func zzState(n, spare int) (Options, []zzOpt) {
	opts := make(Options, 0, n+spare)
	ref := make([]zzOpt, 0, n)
	prev := uint16(0)
	for i := 0; i < n; i++ {
		id := symU16("id")
		symAssume(id >= prev)
		if symParam("smallids", 1) == 1 {
			symAssume(id <= 6)
		}
		v := symU8("val")
		opts = append(opts, Option{ID: OptionID(id), Value: []byte{v}})
		ref = append(ref, zzOpt{id, v})
		prev = id
	}
	return opts, ref
}

func zzSame(o Options, ref []zzOpt) bool {
	if len(o) != len(ref) {
		return false
	}
	same := true
	for i := range ref {
		if uint16(o[i].ID) != ref[i].id || len(o[i].Value) != 1 || o[i].Value[0] != ref[i].v {
			same = false
		}
	}
	return same
}

func zzSorted(o Options) bool {
	ok := true
	for i := 1; i < len(o); i++ {
		if o[i-1].ID > o[i].ID {
			ok = false
		}
	}
	return ok
}

// one editing operation from an arbitrary sorted list (inductive step)
func zzC15_edit() {
	n := symChoose("n", symParam("maxn", 4)+1)
	spare := 2 * symChoose("spare", 2)
	opts, ref := zzState(n, spare)
	id := symU16("opid")
	if symParam("smallids", 1) == 1 {
		symAssume(id <= 7)
	}
	v := symU8("opval")
	switch symChoose("op", 3) {
	case 0:
		symCover("add")
		got := opts.Add(Option{ID: OptionID(id), Value: []byte{v}})
		symAssert(zzSame(got, zzRefAdd(ref, zzOpt{id, v})), "Add inserts after the last option with a number <= the new one (stable sorted insert)")
		symAssert(zzSorted(got), "Add keeps the list ascending")
	case 1:
		symCover("set")
		got := opts.Set(Option{ID: OptionID(id), Value: []byte{v}})
		symAssert(zzSame(got, zzRefSet(ref, zzOpt{id, v})), "Set replaces all options of that number by one, in sorted position")
		symAssert(zzSorted(got), "Set keeps the list ascending")
	case 2:
		symCover("remove")
		got := opts.Remove(OptionID(id))
		symAssert(zzSame(got, zzRefRemove(ref, id)), "Remove deletes exactly the options of that number")
		symAssert(zzSorted(got), "Remove keeps the list ascending")
	}
}

// query operations on an arbitrary sorted list agree with the model and never crash
func zzC15_query() {
	n := symChoose("n", symParam("maxn", 4)+1)
	opts, ref := zzState(n, 0)
	id := symU16("opid")
	if symParam("smallids", 1) == 1 {
		symAssume(id <= 7)
	}
	first, last := zzRefFind(ref, id)
	f, l, err := opts.Find(OptionID(id))
	symObserve("found", err == nil)
	if first < 0 {
		symCover("absent")
		symAssert(err != nil, "Find reports a missing option")
		symAssert(!opts.HasOption(OptionID(id)), "HasOption is false for a missing option")
		_, gerr := opts.GetBytes(OptionID(id))
		symAssert(gerr != nil, "GetBytes fails for a missing option")
		_, uerr := opts.GetUint32(OptionID(id))
		symAssert(uerr != nil, "GetUint32 fails for a missing option")
	} else {
		symCover("present")
		symAssert(err == nil && f == first && l == last, "Find returns the range of the options with that number")
		symAssert(opts.HasOption(OptionID(id)), "HasOption is true for a present option")
		b, gerr := opts.GetBytes(OptionID(id))
		symAssert(gerr == nil && len(b) == 1 && b[0] == ref[first].v, "GetBytes returns the first value")
		u, uerr := opts.GetUint32(OptionID(id))
		symAssert(uerr == nil && u == uint32(ref[first].v), "GetUint32 decodes the first value")
		// multi-value getters
		cnt := last - first
		r := make([]uint32, 8)
		m, merr := opts.GetUint32s(OptionID(id), r)
		symAssert(merr == nil && m == cnt, "GetUint32s returns as many values as there are options of that number")
		okv := true
		for i := 0; i < cnt && i < m; i++ {
			if r[i] != uint32(ref[first+i].v) {
				okv = false
			}
		}
		symAssert(okv, "GetUint32s returns the values in order")
		bs := make([][]byte, 8)
		mb, berr := opts.GetBytess(OptionID(id), bs)
		symAssert(berr == nil && mb == cnt, "GetBytess returns as many values as there are options of that number")
		ss := make([]string, 8)
		ms, serr := opts.GetStrings(OptionID(id), ss)
		symAssert(serr == nil && ms == cnt, "GetStrings returns as many values as there are options of that number")
		small := make([]uint32, 0)
		need, terr := opts.GetUint32s(OptionID(id), small)
		symAssert(errors.Is(terr, ErrTooSmall) && need == cnt, "GetUint32s with a too-small destination reports the needed size")
	}
}

// path: SetPath then Path returns the normalised path; 255-byte segments accepted, 256 refused
func zzNormalise(p string) string {
	out := make([]byte, 0, len(p)+1)
	segStart := 0
	for i := 0; i <= len(p); i++ {
		if i == len(p) || p[i] == '/' {
			if i > segStart {
				out = append(out, '/')
				out = append(out, p[segStart:i]...)
			}
			segStart = i + 1
		}
	}
	return string(out)
}

func zzC15_path() {
	n := symChoose("len", symParam("maxpath", 5)+1)
	p := symString("p", n)
	if symParam("ascii", 1) == 1 {
		for i := 0; i < n; i++ {
			symAssume(p[i] == '/' || p[i] == 'a' || p[i] == 'b')
		}
	}
	buf := make([]byte, 16)
	opts := make(Options, 0, 8)
	opts = opts.Add(Option{ID: URIHost, Value: []byte("h")})
	opts = opts.Add(Option{ID: LocationPath, Value: []byte("loc")})
	opts = opts.Add(Option{ID: URIPath, Value: []byte("old")})
	opts = opts.Add(Option{ID: ContentFormat, Value: []byte{0}})
	// the same for the Uri-Path and for the Location-Path flavour of the operation
	loc := symChoose("location-path", 2) == 1
	var got Options
	var err error
	if loc {
		got, _, err = opts.SetLocationPath(buf, p)
	} else {
		got, _, err = opts.SetPath(buf, p)
	}
	symAssert(err == nil, "SetPath succeeds for short segments")
	if err != nil {
		return
	}
	back, perr := got.Path()
	other, oerr := got.LocationPath()
	untouched := "/loc"
	if loc {
		back, perr = got.LocationPath()
		other, oerr = got.Path()
		untouched = "/old"
	}
	want := zzNormalise(p)
	symObserve("path", back)
	symAssert(oerr == nil && other == untouched, "setting one kind of path leaves the other kind of path option alone")
	if n == 0 {
		symCover("empty")
		symAssert(perr == nil && (back == "/old" || back == "/loc"), "an empty path leaves the options unchanged")
		return
	}
	if want == "" {
		symCover("only-slashes")
		symAssert(perr != nil || back == "", "a path without segments yields no path options of that kind")
	} else {
		symCover("segments")
		symAssert(perr == nil && back == want, "SetPath then Path returns the normalised path")
	}
	symAssert(got.HasOption(URIHost) && got.HasOption(ContentFormat), "SetPath preserves the other options")
}

func zzC15_pathlimit() {
	k := 255 + symChoose("over", 2) // 255 or 256
	seg := make([]byte, k)
	for i := range seg {
		seg[i] = 'x'
	}
	// the long segment is the first, an inner or the last one
	p := []string{"/" + string(seg) + "/a/b", "/a/" + string(seg) + "/b", "/a/b/" + string(seg)}[symChoose("position", 3)]
	location := symChoose("location-path", 2) == 1
	buf := make([]byte, 600)
	opts := make(Options, 0, 8)
	obuf := make([]byte, 64)
	opts, _, _ = opts.SetPath(obuf, "/old/path")
	opts, _, _ = opts.SetLocationPath(obuf[32:], "/old/loc")
	var got Options
	var err error
	if location {
		got, _, err = opts.SetLocationPath(buf, p)
	} else {
		got, _, err = opts.SetPath(buf, p)
	}
	if k == 255 {
		symCover("255")
		symAssert(err == nil, "a 255-byte segment is accepted")
		var back string
		var perr error
		if location {
			back, perr = got.LocationPath()
		} else {
			back, perr = got.Path()
		}
		symAssert(perr == nil && back == p, "and round-trips")
	} else {
		symCover("256")
		symAssert(errors.Is(err, ErrInvalidValueLength), "a 256-byte segment is refused")
		a, aerr := got.Path()
		b, berr := got.LocationPath()
		symAssert(aerr == nil && a == "/old/path" && berr == nil && b == "/old/loc", "a refused path leaves the option list as it was")
		for _, o := range got {
			symAssert(len(o.Value) <= 255, "no path segment longer than 255 bytes is ever stored")
		}
	}
}

// multi-value string getter with more values than its initial buffer (Queries retries with a bigger slice)
func zzC15_queries() {
	n := symChoose("n", symParam("maxqueries", 6)+1)
	opts := make(Options, 0, n+2)
	opts = opts.Add(Option{ID: URIPath, Value: []byte("p")})
	var want []byte
	for i := 0; i < n; i++ {
		v := symU8("q")
		want = append(want, v)
		opts = opts.Add(Option{ID: URIQuery, Value: []byte{v}})
	}
	opts = opts.Add(Option{ID: Accept, Value: []byte{1}})
	q, err := opts.Queries()
	symObserve("n", len(q))
	if n == 0 {
		symCover("none")
		symAssert(err != nil || len(q) == 0, "no query options: nothing returned")
		return
	}
	symCover("some")
	if n > 4 {
		symCover("more-than-initial-buffer")
	}
	symAssert(err == nil, "Queries succeeds for any number of query options")
	symAssert(len(q) == n, "Queries returns every query option")
	if len(q) == n {
		same := true
		for i := 0; i < n; i++ {
			if len(q[i]) != 1 || q[i][0] != want[i] {
				same = false
			}
		}
		symAssert(same, "Queries returns the values in insertion order")
	}
	strs := make([]string, 2)
	m, serr := opts.GetStrings(URIQuery, strs)
	if n > 2 {
		symAssert(errors.Is(serr, ErrTooSmall) && m == n, "GetStrings with a too-small destination reports the needed size")
	} else {
		symAssert(serr == nil && m == n, "GetStrings returns all values when they fit")
	}
}

// Clone and ResetOptionsTo around the 64-byte scratch buffer of Clone: value lengths are decided so that the total
// stays below, reaches and exceeds it in one, two or three options; the copy equals the original, stays equal when
// the original's bytes are overwritten afterwards, and the reported size is the total size of all values
func zzC15_clone() {
	lens := []int{0, 3, 30, 34, 40, 64, 70}
	n := 1 + symChoose("options", 3)
	opts := make(Options, 0, 4)
	total := 0
	var vals [][]byte
	for i := 0; i < n; i++ {
		l := lens[symChoose("value-length", len(lens))]
		v := make([]byte, l)
		for j := range v {
			v[j] = byte(0x40 + i)
		}
		if l > 0 {
			v[0] = symU8("first-byte")
		}
		vals = append(vals, v)
		opts = opts.Add(Option{ID: OptionID(2000 + i), Value: v})
		total += l
	}
	if total > 64 {
		symCover("beyond-scratch-buffer")
	}
	c, err := opts.Clone()
	symAssert(err == nil, "Clone succeeds for any total value size")
	if err != nil {
		return
	}
	same := len(c) == n
	for i := 0; i < n && same; i++ {
		if c[i].ID != OptionID(2000+i) || !bytes.Equal(c[i].Value, vals[i]) {
			same = false
		}
	}
	symAssert(same, "the clone equals the original list")
	// later edits of the original do not show through
	for i := 0; i < n; i++ {
		want := append([]byte(nil), vals[i]...)
		for j := range vals[i] {
			vals[i][j] = 0xEE
		}
		symAssert(i >= len(c) || bytes.Equal(c[i].Value, want), "values of the clone are unaffected by later edits of the original")
	}
	// ResetOptionsTo with a too-small buffer reports the total size needed
	small := make([]byte, 2)
	dst := make(Options, 0, 4)
	_, used, rerr := dst.ResetOptionsTo(small, c)
	if total > 2 && len(c) > 0 {
		fits := true
		rest := 2
		for i := 0; i < len(c); i++ {
			if len(c[i].Value) > rest {
				fits = false
				break
			}
			rest -= len(c[i].Value)
		}
		if !fits {
			symAssert(errors.Is(rerr, ErrTooSmall) && used >= total-2 && used <= total, "a too-small buffer is reported with the size still needed")
		}
	}
	symCover("cloned")
	// reset-to from a list given in arbitrary order (as SetupGet & co. receive their options): the result is sorted
	// ascending by option number, options with equal numbers keep the order in which they were given
	ids := []OptionID{URIQuery, ContentFormat, ETag, URIQuery}
	perm := [][]int{{0, 1, 2, 3}, {3, 2, 1, 0}, {1, 0, 3, 2}, {2, 3, 0, 1}}[symChoose("input-order", 4)]
	var in Options
	for _, k := range perm {
		in = append(in, Option{ID: ids[k], Value: []byte{byte(0x60 + k)}})
	}
	buf := make([]byte, 16)
	out, _, rerr2 := make(Options, 0, 4).ResetOptionsTo(buf, in)
	symAssert(rerr2 == nil && len(out) == 4, "reset-to accepts a list in any order")
	if rerr2 == nil && len(out) == 4 {
		sorted := true
		for i := 1; i < 4; i++ {
			if out[i-1].ID > out[i].ID {
				sorted = false
			}
		}
		symAssert(sorted, "after reset-to the list is ascending by option number")
		// the two Uri-Query values keep their given relative order
		var q []byte
		for _, o := range out {
			if o.ID == URIQuery {
				q = append(q, o.Value[0])
			}
		}
		var wantq []byte
		for _, k := range perm {
			if ids[k] == URIQuery {
				wantq = append(wantq, byte(0x60+k))
			}
		}
		symAssert(bytes.Equal(q, wantq), "insertion order is kept among repeated options")
		symAssert(out.HasOption(ContentFormat) && out.HasOption(ETag), "and the query operations find every option")
	}
}

func zzC15_selftest() {
	opts, _ := zzState(2, 0)
	id := symU16("opid")
	symAssert(!opts.HasOption(OptionID(id)), "selftest: must fail")
}
