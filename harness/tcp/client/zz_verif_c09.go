package client

import (
	"context"
	"io"
	"net"
	"time"

	"github.com/plgd-dev/go-coap/v3/message"
	"github.com/plgd-dev/go-coap/v3/message/codes"
	"github.com/plgd-dev/go-coap/v3/message/pool"
	coapNet "github.com/plgd-dev/go-coap/v3/net"
	"github.com/plgd-dev/go-coap/v3/net/responsewriter"
)

// C09 on the stream connection — the real Session.Run loop reads from an in-memory socket whose Read blocks until
// the peer delivers a segment, half-closes, or the socket is closed locally.

type zzPipe struct {
	in      chan []byte
	closedC chan struct{}
	closed  bool
	pending []byte
	frames  [][]byte
	closes  int
}

func zzNewPipe() *zzPipe {
	return &zzPipe{in: make(chan []byte, 4), closedC: make(chan struct{})}
}

func (c *zzPipe) Read(b []byte) (int, error) {
	if len(c.pending) == 0 {
		select {
		case seg, ok := <-c.in:
			if !ok {
				return 0, io.EOF // the peer closed its side
			}
			c.pending = seg
		case <-c.closedC:
			return 0, net.ErrClosed
		}
	}
	n := copy(b, c.pending)
	c.pending = c.pending[n:]
	return n, nil
}

func (c *zzPipe) Write(b []byte) (int, error) {
	if c.closed {
		return 0, net.ErrClosed
	}
	c.frames = append(c.frames, append([]byte(nil), b...))
	return len(b), nil
}

func (c *zzPipe) Close() error {
	c.closes++
	if c.closed {
		return net.ErrClosed
	}
	c.closed = true
	close(c.closedC)
	return nil
}
func (c *zzPipe) LocalAddr() net.Addr                { return zzAddr{} }
func (c *zzPipe) RemoteAddr() net.Addr               { return zzAddr{} }
func (c *zzPipe) SetDeadline(t time.Time) error      { return nil }
func (c *zzPipe) SetReadDeadline(t time.Time) error  { return nil }
func (c *zzPipe) SetWriteDeadline(t time.Time) error { return nil }

func zzNewPipeConn(nc *zzPipe) *Conn {
	cfg := Config{}
	cfg.Ctx = context.Background()
	cfg.MaxMessageSize = 1152
	cfg.MessagePool = pool.New(0, 1024)
	cfg.Errors = func(error) {}
	n := 0
	cfg.GetToken = func() (message.Token, error) { n++; return message.Token{0xEE, byte(n)}, nil }
	cfg.Handler = func(w *responsewriter.ResponseWriter[*Conn], r *pool.Message) {}
	cfg.LimitClientParallelRequests = 4
	cfg.LimitClientEndpointParallelRequests = 4
	cfg.ReceivedMessageQueueSize = 2
	cfg.ConnectionCacheSize = 64
	cfg.DisableTCPSignalMessageCSM = true
	cfg.CloseSocket = true
	return NewConnWithOpts(coapNet.NewConn(nc), &cfg)
}

func zzC09_tcp() {
	nc := zzNewPipe()
	cc := zzNewPipeConn(nc)
	onClose := [2]int{}
	cc.AddOnClose(func() { onClose[0]++ })
	cc.AddOnClose(func() { onClose[1]++ })
	runDone := false
	go func() {
		_ = cc.Run()
		runDone = true
	}()
	op := symChoose("operation", 4)
	stage := symChoose("stage", 2)
	end := symChoose("end", 5)
	ctx, cancel := context.WithCancel(context.Background())
	defer cancel()
	closers := 0
	finish := func() {
		switch end {
		case 0:
			cancel()
			symCover("context-cancelled")
		case 1:
			symAssert(cc.Close() == nil, "Close succeeds")
			symCover("closed-locally")
		case 2: // two goroutines close at once
			for i := 0; i < 2; i++ {
				go func() {
					_ = cc.Close()
					closers++
				}()
			}
			symCover("closed-twice-concurrently")
		case 3: // the peer closes its side of the stream
			close(nc.in)
			symCover("peer-closed")
		case 4: // the peer sends something that cannot be a frame (TKL 15)
			nc.in <- []byte{0x0F, 0x01, 0x02}
			symCover("peer-garbage")
		}
	}
	if stage == 0 {
		finish()
		if end != 0 {
			symWaitUntil(func() bool { return runDone })
		}
	}
	done := false
	var err error
	go func() {
		switch op {
		case 0:
			req := pool.NewMessage(ctx)
			req.SetCode(codes.GET)
			req.SetToken(message.Token{0xA1})
			_ = req.SetPath("/a")
			_, err = cc.Do(req)
		case 1:
			req := pool.NewMessage(ctx)
			req.SetCode(codes.GET)
			req.SetToken(message.Token{0xA2})
			_ = req.SetPath("/obs")
			req.SetObserve(0)
			_, err = cc.DoObserve(req, func(n *pool.Message) {})
		case 2:
			err = cc.Ping(ctx)
		case 3: // one-way write: must not block at all
			req := pool.NewMessage(ctx)
			req.SetCode(codes.POST)
			req.SetToken(message.Token{0xA5})
			_ = req.SetPath("/a")
			err = cc.WriteMessage(req)
		}
		done = true
	}()
	if stage == 1 {
		symWaitUntil(func() bool { return len(nc.frames) >= 1 }) // the request is on the stream; the peer is silent
		symIdle()
		if op == 3 {
			symAssert(done && err == nil, "a one-way write returns once written")
		} else {
			symAssert(!done, "without a response the operation is still waiting")
		}
		finish()
	}
	symWaitUntil(func() bool { return done })
	symCover("returned")
	if op != 3 || stage == 0 {
		symAssert(err != nil, "an operation that never got its answer returns an error")
	}
	// finally the connection is closed (again): idempotent, done signalled, callbacks ran exactly once
	symAssert(cc.Close() == nil, "Close succeeds, also when repeated")
	symWaitUntil(func() bool { return runDone })
	if end == 2 {
		symWaitUntil(func() bool { return closers == 2 })
	}
	select {
	case <-cc.Done():
	default:
		symAssert(false, "the done signal is completed once the processing loop has ended")
	}
	symAssert(onClose[0] == 1 && onClose[1] == 1, "every registered on-close callback ran exactly once")
	symAssert(nc.closed, "the socket is closed")
	symAssert(cc.Close() == nil, "Close after everything ended still succeeds")
	symAssert(onClose[0] == 1 && onClose[1] == 1, "and runs no callback again")
	symCover("closed")
}

func zzC09_tcp_selftest() {
	nc := zzNewPipe()
	cc := zzNewPipeConn(nc)
	n := 0
	cc.AddOnClose(func() { n++ })
	runDone := false
	go func() {
		_ = cc.Run()
		runDone = true
	}()
	_ = cc.Close()
	symWaitUntil(func() bool { return runDone })
	symAssert(n == 0, "selftest: must fail (the callback ran)")
}
