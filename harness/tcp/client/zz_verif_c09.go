package client

import (
	"github.com/plgd-dev/go-coap/v3/net/responsewriter"
	"context"

	"github.com/plgd-dev/go-coap/v3/message"
	"github.com/plgd-dev/go-coap/v3/message/codes"
	"github.com/plgd-dev/go-coap/v3/message/pool"
)

// C09 on the stream connection — the real Session.Run loop reads from an in-memory socket whose Read blocks until
// the peer delivers a segment, half-closes, or the socket is closed locally.

func zzC09_tcp() {
	nc := zzNewPipe()
	cc := zzNewPipeConn(nc)
	onClose := [2]int{}
	cc.AddOnClose(func() { onClose[0]++ })
	cc.AddOnClose(func() { onClose[1]++ })
	runDone := false
	go func() {
		_ = cc.Run()
		runDone = true
	}()
	op := symChoose("operation", 4)
	stage := symChoose("stage", 3)
	end := symChoose("end", 5)
	ctx, cancel := context.WithCancel(context.Background())
	defer cancel()
	// listed finding: a write that is stuck in the socket (stalled peer) is not interrupted by cancelling the
	// operation's context - the stream connection sets no write deadline; only closing the connection ends it
	symKnown("C09-stalled-write-ignores-cancel", stage == 2 && end == 0)
	if stage == 2 {
		nc.stalled = true
	}
	closers := 0
	finish := func() {
		switch end {
		case 0:
			cancel()
			symCover("context-cancelled")
		case 1:
			symAssert(cc.Close() == nil, "Close succeeds")
			symCover("closed-locally")
		case 2: // two goroutines close at once
			for i := 0; i < 2; i++ {
				go func() {
					_ = cc.Close()
					closers++
				}()
			}
			symCover("closed-twice-concurrently")
		case 3: // the peer closes its side of the stream
			close(nc.in)
			symCover("peer-closed")
		case 4: // the peer sends something that cannot be a frame (TKL 15)
			nc.in <- []byte{0x0F, 0x01, 0x02}
			symCover("peer-garbage")
		}
	}
	if stage == 0 {
		finish()
		if end != 0 {
			symWaitUntil(func() bool { return runDone })
		}
	}
	done := false
	var err error
	go func() {
		switch op {
		case 0:
			req := pool.NewMessage(ctx)
			req.SetCode(codes.GET)
			req.SetToken(message.Token{0xA1})
			_ = req.SetPath("/a")
			_, err = cc.Do(req)
		case 1:
			req := pool.NewMessage(ctx)
			req.SetCode(codes.GET)
			req.SetToken(message.Token{0xA2})
			_ = req.SetPath("/obs")
			req.SetObserve(0)
			_, err = cc.DoObserve(req, func(n *pool.Message) {})
		case 2:
			err = cc.Ping(ctx)
		case 3: // one-way write: must not block at all
			req := pool.NewMessage(ctx)
			req.SetCode(codes.POST)
			req.SetToken(message.Token{0xA5})
			_ = req.SetPath("/a")
			err = cc.WriteMessage(req)
		}
		done = true
	}()
	if stage == 2 {
		// half-open / stalled stream: the peer keeps the connection open but no longer reads
		symIdle()
		symAssert(!done, "the write is stuck in the socket")
		symCover("write-stuck")
		finish()
	}
	if stage == 1 {
		symWaitUntil(func() bool { return len(nc.frames) >= 1 }) // the request is on the stream; the peer is silent
		symIdle()
		if op == 3 {
			symAssert(done && err == nil, "a one-way write returns once written")
		} else {
			symAssert(!done, "without a response the operation is still waiting")
		}
		finish()
	}
	symWaitUntil(func() bool { return done })
	symCover("returned")
	if op != 3 || stage != 1 {
		symAssert(err != nil, "an operation that never got its answer returns an error")
	}
	// finally the connection is closed (again): idempotent, done signalled, callbacks ran exactly once
	symAssert(cc.Close() == nil, "Close succeeds, also when repeated")
	symWaitUntil(func() bool { return runDone })
	if end == 2 {
		symWaitUntil(func() bool { return closers == 2 })
	}
	select {
	case <-cc.Done():
	default:
		symAssert(false, "the done signal is completed once the processing loop has ended")
	}
	symAssert(onClose[0] == 1 && onClose[1] == 1, "every registered on-close callback ran exactly once")
	symAssert(nc.closed, "the socket is closed")
	symAssert(cc.Close() == nil, "Close after everything ended still succeeds")
	symAssert(onClose[0] == 1 && onClose[1] == 1, "and runs no callback again")
	symCover("closed")
}

// Close while the receive queue is full: a handler is still running and the peer has sent more messages than the
// queue holds, so the read loop is waiting for a free slot - Close still ends the loop, completes the done signal
// and runs the on-close callbacks
func zzC09_tcp_queue_full() {
	release := make(chan struct{})
	entered := 0
	nc := zzNewPipe()
	cc := zzNewPipeConnH(nc, func(w *responsewriter.ResponseWriter[*Conn], r *pool.Message) {
		entered++
		<-release // a slow application handler
	}, 1152)
	closedCb := 0
	cc.AddOnClose(func() { closedCb++ })
	runDone := false
	go func() {
		_ = cc.Run()
		runDone = true
	}()
	n := 2 + symParam("beyond-queue", 2) + 1 // queue of 2, one in the handler, and more
	var stream []byte
	for i := 0; i < n; i++ {
		stream = append(stream, zzMkFrame(codes.GET, message.Token{0xC0, byte(i)}, nil)...)
	}
	nc.in <- stream
	symIdle()
	symAssert(entered == 1 && !runDone, "one handler is running, the rest waits")
	if symChoose("end", 2) == 0 {
		symAssert(cc.Close() == nil, "Close succeeds")
		symCover("closed-locally")
	} else {
		close(nc.in)
		symCover("peer-closed")
		symIdle()
		// the peer going away is only noticed once the loop reads again; closing locally must still work
		symAssert(cc.Close() == nil, "Close succeeds")
	}
	symWaitUntil(func() bool { return runDone })
	select {
	case <-cc.Done():
	default:
		symAssert(false, "the done signal is completed once the processing loop has ended")
	}
	symAssert(closedCb == 1 && nc.closed, "the on-close callback ran once and the socket is closed")
	close(release)
	symIdle()
	symCover("queue-full-closed")
}

func zzC09_tcp_selftest() {
	nc := zzNewPipe()
	cc := zzNewPipeConn(nc)
	n := 0
	cc.AddOnClose(func() { n++ })
	runDone := false
	go func() {
		_ = cc.Run()
		runDone = true
	}()
	_ = cc.Close()
	symWaitUntil(func() bool { return runDone })
	symAssert(n == 0, "selftest: must fail (the callback ran)")
}

// connection setup over a stream the peer has already reset: the connection's very first write (its CSM) fails.
// Run reports the error - and the connection is closed like any other: Done() completes, every on-close callback
// runs exactly once, Close afterwards changes nothing
func zzC09_tcp_setup_fails() {
	nc := zzNewPipe()
	broken := symChoose("first-write-fails", 2) == 1
	nc.broken = broken
	zzPipeSendCSM = true
	cc := zzNewPipeConn(nc)
	onClose := [2]int{}
	cc.AddOnClose(func() { onClose[0]++ })
	cc.AddOnClose(func() { onClose[1]++ })
	runDone := false
	var runErr error
	go func() {
		runErr = cc.Run()
		runDone = true
	}()
	if broken {
		symCover("csm-write-failed")
		symWaitUntil(func() bool { return runDone })
		symAssert(runErr != nil, "Run reports that the connection could not be set up")
	} else {
		symIdle()
		symAssert(!runDone && len(nc.frames) == 1, "the connection announced itself and is serving")
		_ = cc.Close()
		symWaitUntil(func() bool { return runDone })
		symCover("closed-after-setup")
	}
	select {
	case <-cc.Done():
	default:
		symAssert(false, "the connection's done signal is completed when Run has returned")
	}
	symAssert(onClose[0] == 1 && onClose[1] == 1, "every on-close callback ran exactly once")
	_ = cc.Close()
	_ = cc.Close()
	symAssert(onClose[0] == 1 && onClose[1] == 1, "closing again runs no callback again")
	symAssert(nc.closes >= 1, "the socket is closed")
}
