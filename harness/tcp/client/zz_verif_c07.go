package client

import (
	"bytes"
	"context"

	"github.com/plgd-dev/go-coap/v3/message"
	"github.com/plgd-dev/go-coap/v3/message/pool"
	"github.com/plgd-dev/go-coap/v3/tcp/coder"
)

// C07 — stream framing is independent of segmentation. F(s) = (deliveries, leftover, error) of processBuffer run
// once on a buffer holding s. Session.Run only ever appends what it read to the buffer and calls processBuffer, so
// the two-segment equation checked here (F on S[:c], append S[c:], F again == F(S)) gives, by induction on the
// number of reads, independence from every segmentation of the stream.

type zzDelivery struct {
	code  uint16
	token []byte
	body  []byte
}

type zzSink struct{ got []zzDelivery }

func zzSession(max uint32, sink *zzSink) *Session {
	s := &Session{
		maxMessageSize: max,
		messagePool:    pool.New(0, 0),
		requestMonitor: func(cc *Conn, req *pool.Message) (bool, error) {
			d := zzDelivery{code: uint16(req.Code()), token: append([]byte(nil), req.Token()...)}
			if b, err := req.ReadBody(); err == nil {
				d.body = b
			}
			sink.got = append(sink.got, d)
			return true, nil // recorded; not queued (the receive queue is C11's subject)
		},
	}
	ctx := context.Background()
	s.ctx.Store(&ctx)
	return s
}

// reference framer written from RFC 8323 §3.2, 64-bit arithmetic
type zzFrame struct{ start, end int }

func zzRefHdr(data []byte) (need, bad bool, hdrLen int, frame int64) {
	if len(data) < 1 {
		return true, false, 0, 0
	}
	nib := int(data[0] >> 4)
	tkl := int(data[0] & 0x0f)
	if tkl > 8 {
		return false, true, 0, 0
	}
	ext := 0
	switch nib {
	case 13:
		ext = 1
	case 14:
		ext = 2
	case 15:
		ext = 4
	}
	if len(data) < 1+ext {
		return true, false, 0, 0
	}
	var body int64
	switch nib {
	case 13:
		body = int64(data[1]) + 13
	case 14:
		body = (int64(data[1])<<8 | int64(data[2])) + 269
	case 15:
		body = (int64(data[1])<<24 | int64(data[2])<<16 | int64(data[3])<<8 | int64(data[4])) + 65805
	default:
		body = int64(nib)
	}
	hdrLen = 1 + ext + 1 + tkl
	frame = int64(hdrLen) + body
	if frame > 0xffffffff {
		// a length that no frame header structure can represent is refused as soon as the length field is complete
		return false, true, hdrLen, frame
	}
	if len(data) < hdrLen {
		return true, false, hdrLen, frame
	}
	return false, false, hdrLen, frame
}

// zzRefStream: which frames are delivered, how many bytes stay buffered, whether the connection must be closed
func zzRefStream(s []byte, max uint32) (frames []zzFrame, leftover int, fail bool) {
	pos := 0
	for pos < len(s) {
		need, bad, _, frame := zzRefHdr(s[pos:])
		if bad {
			return frames, len(s) - pos, true
		}
		if need {
			break
		}
		if frame > int64(max) {
			// closed as soon as the offending header is seen, nothing of it or after it is delivered
			return frames, len(s) - pos, true
		}
		if int64(len(s)-pos) < frame {
			break
		}
		f := int(symConcrete(int(frame)))
		var m message.Message
		m.Options = make(message.Options, 0, 16)
		if _, err := coder.DefaultCoder.Decode(s[pos:pos+f], &m); err != nil {
			return frames, len(s) - pos, true
		}
		frames = append(frames, zzFrame{pos, pos + f})
		pos += f
	}
	return frames, len(s) - pos, false
}

func zzSameDeliveries(a, b []zzDelivery) bool {
	if len(a) != len(b) {
		return false
	}
	same := true
	for i := range a {
		if a[i].code != b[i].code || !bytes.Equal(a[i].token, b[i].token) || !bytes.Equal(a[i].body, b[i].body) {
			same = false
		}
	}
	return same
}

func zzC07_segments() {
	n := symChoose("len", symParam("maxlen", 6)+1)
	s := symBytes("s", n)
	max := symU32("max")
	if symParam("smallmax", 1) == 1 {
		symAssume(max >= 2 && max <= 64)
	}
	c := symChoose("cut", n+1)

	// whole stream in one buffer
	var whole zzSink
	sw := zzSession(max, &whole)
	bw := bytes.NewBuffer(make([]byte, 0, 16))
	bw.Write(s)
	errW := sw.processBuffer(bw, nil)
	frames, leftover, fail := zzRefStream(s, max)
	symObserve("whole-err", errW != nil)
	symObserve("whole-delivered", len(whole.got))
	symAssert((errW != nil) == fail, "connection is closed exactly when the reference framer says so (oversize or malformed frame)")
	symAssert(len(whole.got) == len(frames), "exactly the complete frames before any offending one are delivered, each once")
	if len(whole.got) == len(frames) {
		ok := true
		for i, f := range frames {
			var m message.Message
			m.Options = make(message.Options, 0, 16)
			_, _ = coder.DefaultCoder.Decode(s[f.start:f.end], &m)
			if whole.got[i].code != uint16(m.Code) || !bytes.Equal(whole.got[i].token, m.Token) || !bytes.Equal(whole.got[i].body, m.Payload) {
				ok = false
			}
		}
		symAssert(ok, "delivered messages are the sent frames, complete and in order")
	}
	if errW == nil {
		symAssert(bw.Len() == leftover, "an incomplete trailing frame stays buffered, nothing else")
	}
	if fail {
		symCover("closed")
	}
	if len(frames) >= 2 {
		symCover("two-frames")
	}

	// same stream in two segments through one buffer
	var parts zzSink
	sp := zzSession(max, &parts)
	bp := bytes.NewBuffer(make([]byte, 0, 16))
	bp.Write(s[:c])
	err1 := sp.processBuffer(bp, nil)
	var err2 error
	if err1 == nil {
		bp.Write(s[c:])
		err2 = sp.processBuffer(bp, nil)
	}
	symObserve("parts-err", err1 != nil || err2 != nil)
	symAssert(zzSameDeliveries(parts.got, whole.got), "deliveries do not depend on where the stream is cut")
	symAssert((err1 != nil || err2 != nil) == (errW != nil), "the error outcome does not depend on where the stream is cut")
	if err1 == nil && err2 == nil {
		symAssert(bp.Len() == bw.Len(), "the buffered remainder does not depend on where the stream is cut")
	}
	symCover("done")
}

func zzC07_selftest() {
	s := symBytes("s", 2)
	var sink zzSink
	se := zzSession(64, &sink)
	b := bytes.NewBuffer(nil)
	b.Write(s)
	_ = se.processBuffer(b, nil)
	symAssert(len(sink.got) == 0, "selftest: must fail (a 2-byte frame is deliverable)")
}
