package client

import (
	"github.com/plgd-dev/go-coap/v3/message"
	"github.com/plgd-dev/go-coap/v3/message/codes"
	"github.com/plgd-dev/go-coap/v3/message/pool"
)

// the message pool is shared by all connections of a server: whatever one peer sends - a frame whose header is fine
// but whose options cannot be decoded, a frame the request monitor drops or rejects - every pooled message taken for
// it goes back exactly once, so that what other connections acquire afterwards has one owner
func zzC10_tcp_pool_intact() {
	zzPipePoolSize = 1024
	how := symChoose("frame", 4)
	if how >= 2 {
		zzPipeRequestMonitor = func(cc *Conn, req *pool.Message) (bool, error) {
			if how == 2 {
				return true, nil // dropped
			}
			return false, zzErrReset // the monitor reports an error: the connection is closed
		}
	}
	nc := zzNewPipe()
	cc := zzNewPipeConn(nc)
	runDone := false
	go func() {
		_ = cc.Run()
		runDone = true
	}()
	symSchedCanonical(true)
	switch how {
	case 0: // header decodes, the option that follows is truncated
		nc.in <- []byte{0x10, 0x01, 0xB4}
		symCover("undecodable-body")
	case 1: // an option delta of 15 that is not the payload marker
		nc.in <- []byte{0x10, 0x01, 0xF1}
		symCover("undecodable-body")
	default:
		nc.in <- zzMkFrame(codes.GET, message.Token{0x01}, nil)
		symCover("monitor")
	}
	symIdle()
	if how != 2 {
		symAssert(runDone, "a peer that breaks the framing, or that the monitor rejects, is disconnected")
	} else {
		symAssert(!runDone, "a dropped message leaves the connection open")
		_ = cc.Close()
		symWaitUntil(func() bool { return runDone })
	}
	x, y, z := cc.AcquireMessage(cc.Context()), cc.AcquireMessage(cc.Context()), cc.AcquireMessage(cc.Context())
	symAssert(x != y && y != z && x != z, "the pool never hands one message to two owners")
}
