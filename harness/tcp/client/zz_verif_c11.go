package client

import (
	"bytes"
	"context"

	"github.com/plgd-dev/go-coap/v3/message"
	"github.com/plgd-dev/go-coap/v3/message/codes"
	"github.com/plgd-dev/go-coap/v3/message/pool"
	"github.com/plgd-dev/go-coap/v3/net/responsewriter"
)

// C11 on the stream connection — requests arrive through the real read loop (Session.Run over an in-memory socket);
// each request's handler is decided to return at once or to block on a nested request on the same connection;
// the peer answers the nested requests in a decided order, before or after the next request arrives. Every
// request is handled exactly once, answered once, every nested request gets its own response, nothing stalls.
// Uses exported API only.

func zzC11_tcp_nested() {
	n := symParam("stimuli", 2)
	nested := make([]bool, n)
	handled := make([]int, n)
	ended := make([]bool, n)
	calls := make([]*zzTCall, n)
	for i := range nested {
		nested[i] = symChoose("handler-blocks-on-nested-request", 2) == 1
	}
	nc := zzNewPipe()
	var cc *Conn
	cc = zzNewPipeConnH(nc, func(w *responsewriter.ResponseWriter[*Conn], r *pool.Message) {
		tok := r.Token()
		if len(tok) != 2 || tok[0] != 0xC0 || int(tok[1]) >= n {
			return
		}
		i := int(tok[1])
		handled[i]++
		if nested[i] {
			calls[i] = &zzTCall{token: message.Token{0xD0, byte(i)}}
			zzTDo(cc, calls[i])
		}
		_ = w.SetResponse(codes.Content, message.TextPlain, bytes.NewReader([]byte{byte(i)}))
		ended[i] = true
	}, 1152)
	runDone := false
	go func() {
		_ = cc.Run()
		runDone = true
	}()
	// frames the connection wrote, decoded
	type out struct {
		code  codes.Code
		token []byte
		body  []byte
	}
	outs := func() []out {
		var r []out
		for _, f := range nc.frames {
			c, t := zzDecodeFrame(f)
			r = append(r, out{code: c, token: t})
		}
		return r
	}
	var pending []int // stimulus indices whose nested request is on the stream and unanswered
	answer := func(i int) {
		nc.in <- zzMkFrame(codes.Content, message.Token{0xD0, byte(i)}, []byte{byte(i) + 0x40})
		symIdle()
	}
	for i := 0; i < n; i++ {
		nc.in <- zzMkFrame(codes.GET, message.Token{0xC0, byte(i)}, nil)
		symIdle()
		if nested[i] {
			// the handler ran and its nested request is on the stream although earlier handlers still block
			found := false
			for _, o := range outs() {
				if o.code == codes.GET && len(o.token) == 2 && o.token[0] == 0xD0 && int(o.token[1]) == i {
					found = true
				}
			}
			symAssert(found, "a later request is handled while earlier handlers wait for their nested requests")
			if !found {
				return
			}
			pending = append(pending, i)
		}
		if len(pending) > 0 && i < n-1 && symChoose("answer-now", 2) == 1 {
			k := symChoose("which", len(pending))
			answer(pending[k])
			pending = append(pending[:k:k], pending[k+1:]...)
		}
	}
	for len(pending) > 0 {
		k := symChoose("which", len(pending))
		answer(pending[k])
		pending = append(pending[:k:k], pending[k+1:]...)
	}
	symIdle()
	symCover("all-handled")
	anyNested := false
	for i := 0; i < n; i++ {
		symAssert(handled[i] == 1 && ended[i], "every request is dispatched to the handler exactly once and the handler completes")
		if nested[i] {
			anyNested = true
			c := calls[i]
			symAssert(c != nil && c.done && c.err == nil, "a request issued from inside a handler completes")
			if c != nil && c.err == nil {
				symAssert(len(c.body) == 1 && c.body[0] == byte(i)+0x40, "and gets the response produced for it")
			}
		}
		cnt := 0
		for _, o := range outs() {
			if o.code == codes.Content && len(o.token) == 2 && o.token[0] == 0xC0 && int(o.token[1]) == i {
				cnt++
			}
		}
		symAssert(cnt == 1, "each incoming request is answered once")
	}
	if anyNested {
		symCover("nested")
	}
	symAssert(!runDone, "the connection is still being served")
	_ = cc.Close()
	symWaitUntil(func() bool { return runDone })
	_ = context.Background
}

// a request monitor filters some messages out; messages that arrive in the same read behind a filtered one are
// still dispatched, exactly once and in order, without waiting for further bytes
func zzC11_tcp_monitor_drop() {
	var got []byte
	zzPipeRequestMonitor = func(cc *Conn, req *pool.Message) (bool, error) {
		t := req.Token()
		return len(t) == 1 && t[0] == 0xDD, nil // drop
	}
	nc := zzNewPipe()
	cc := zzNewPipeConnH(nc, func(w *responsewriter.ResponseWriter[*Conn], r *pool.Message) {
		if t := r.Token(); len(t) == 2 && t[0] == 0xC0 {
			got = append(got, t[1])
		}
	}, 1152)
	runDone := false
	go func() {
		_ = cc.Run()
		runDone = true
	}()
	symSchedCanonical(true)
	// a decided mix of 3 frames, filtered or not, coalesced into one read
	var stream []byte
	var want []byte
	for i := 0; i < 3; i++ {
		if symChoose("filtered", 2) == 1 {
			stream = append(stream, zzMkFrame(codes.DELETE, message.Token{0xDD}, nil)...)
		} else {
			stream = append(stream, zzMkFrame(codes.GET, message.Token{0xC0, byte(i)}, nil)...)
			want = append(want, byte(i))
		}
	}
	nc.in <- stream
	symIdle()
	symCover("coalesced-read-processed")
	symAssert(bytes.Equal(got, want), "every message that is not filtered out is dispatched once, in order, as soon as the read that contains it has been processed")
	symAssert(!runDone, "the connection is still served")
	_ = cc.Close()
	symWaitUntil(func() bool { return runDone })
}
