package client

import (
	"bytes"

	"github.com/plgd-dev/go-coap/v3/message"
	"github.com/plgd-dev/go-coap/v3/message/codes"
	"github.com/plgd-dev/go-coap/v3/message/pool"
	"github.com/plgd-dev/go-coap/v3/net/responsewriter"
)

// C07 through the real read loop (Session.Run over an in-memory socket with a blocking Read): a stream of three
// messages whose lengths are decided among the framing classes is delivered in two or three reads cut at decided
// positions; every message is handed to the application exactly once, in order, with its content, as soon as the
// read that completes it has been processed - and nothing is delivered before. Uses exported API only.

type zzGot struct {
	token   []byte
	payload []byte
}

func zzC07_run() {
	var got []zzGot
	// payload sizes: 0 and 3 (length nibble < 13), 11 and 12 (around the 13 boundary once the payload marker is
	// counted), 20 and 40 (one-byte extended length), 280 (two-byte extended length)
	// (with the 2-byte Content-Format option and the payload marker, a 266-byte payload makes the frame's length
	// field exactly 269, the border between the one- and two-byte extended length)
	sizes := []int{0, 3, 12, 40, 266, 280, 11, 20, 265, 267}
	nmsg := symParam("messages", 3)
	var frames [][]byte
	var want []zzGot
	var stream []byte
	var ends []int
	largest := 0
	for i := 0; i < nmsg; i++ {
		n := sizes[symChoose("payload-size", symParam("sizes", 6))]
		pl := make([]byte, n)
		for j := range pl {
			pl[j] = byte(0x30 + i + j)
		}
		tok := message.Token{byte(0xA0 + i)}
		f := zzMkFrame(codes.Content, tok, pl)
		frames = append(frames, f)
		want = append(want, zzGot{token: tok, payload: pl})
		stream = append(stream, f...)
		ends = append(ends, len(stream))
		if len(f) > largest {
			largest = len(f)
		}
	}
	later := zzMkFrame(codes.Content, message.Token{0xAF}, []byte{0x7e}) // sent at the end, in a read of its own
	if len(later) > largest {
		largest = len(later)
	}
	// the maximum message size is generous, or exactly the size of the largest message of the stream (every
	// message is within the maximum; what is buffered together with its neighbours may well be more than that)
	maxSize := uint32(1152)
	if symChoose("tight-maximum", 2) == 1 {
		maxSize = uint32(largest)
		symCover("tight-maximum")
	}
	nc := zzNewPipe()
	cc := zzNewPipeConnH(nc, func(w *responsewriter.ResponseWriter[*Conn], r *pool.Message) {
		g := zzGot{token: append([]byte(nil), r.Token()...)}
		if b, err := r.ReadBody(); err == nil {
			g.payload = b
		}
		got = append(got, g)
	}, maxSize)
	runDone := false
	go func() {
		_ = cc.Run()
		runDone = true
	}()
	symSchedCanonical(true)
	// two cuts -> three reads (a cut at 0 or at the end gives an empty read less)
	c1 := symChoose("cut1", len(stream)+1)
	c2 := len(stream)
	if symParam("cuts", 1) >= 2 {
		c2 = c1 + symChoose("cut2", len(stream)-c1+1)
	}
	segs := [][]byte{stream[:c1], stream[c1:c2], stream[c2:]}
	fed := 0
	for _, sg := range segs {
		if len(sg) == 0 {
			continue
		}
		nc.in <- append([]byte(nil), sg...)
		fed += len(sg)
		symIdle()
		// exactly the messages that are complete in the bytes read so far have been delivered
		complete := 0
		for _, e := range ends {
			if e <= fed {
				complete++
			}
		}
		symAssert(len(got) == complete, "after each read exactly the messages completed by the bytes read so far have been delivered")
	}
	symAssert(!runDone && !nc.closed, "a well-formed stream keeps the connection open")
	symAssert(len(got) == nmsg, "every message of the stream is delivered exactly once")
	for i := 0; i < len(got) && i < nmsg; i++ {
		symAssert(bytes.Equal(got[i].token, want[i].token) && bytes.Equal(got[i].payload, want[i].payload), "in stream order, with its own token and payload")
	}
	symCover("delivered")
	// one more message arrives later, in a read of its own: nothing that was already delivered comes again
	nc.in <- later
	symIdle()
	symAssert(len(got) == nmsg+1 && len(got[len(got)-1].token) == 1 && got[len(got)-1].token[0] == 0xAF, "a later read delivers the message it carries and nothing that was delivered before")
	_ = cc.Close()
	symWaitUntil(func() bool { return runDone })
}

// a frame much larger than the session's read buffer and its internal copy chunks (9000 bytes of payload), followed
// in the same reads by small frames: each message is delivered once, in order, with its own content
func zzC07_run_large() {
	var got []zzGot
	big := make([]byte, 9000)
	for j := range big {
		big[j] = byte(j * 7)
	}
	// a byte sequence inside the big payload that would parse as a small frame if framing ever resumed there
	copy(big[8200:], zzMkFrame(codes.Content, message.Token{0xEE}, []byte{0x66}))
	small1, small2 := []byte{0x31}, []byte{0x32, 0x33}
	frames := [][]byte{
		zzMkFrame(codes.Content, message.Token{0xA0}, big),
		zzMkFrame(codes.Content, message.Token{0xA1}, small1),
		zzMkFrame(codes.Content, message.Token{0xA2}, small2),
	}
	want := []zzGot{{[]byte{0xA0}, big}, {[]byte{0xA1}, small1}, {[]byte{0xA2}, small2}}
	var stream []byte
	for _, f := range frames {
		stream = append(stream, f...)
	}
	nc := zzNewPipe()
	cc := zzNewPipeConnH(nc, func(w *responsewriter.ResponseWriter[*Conn], r *pool.Message) {
		g := zzGot{token: append([]byte(nil), r.Token()...)}
		if b, err := r.ReadBody(); err == nil {
			g.payload = b
		}
		got = append(got, g)
	}, 16384)
	runDone := false
	go func() {
		_ = cc.Run()
		runDone = true
	}()
	symSchedCanonical(true)
	// everything in one read, or cut inside the big frame / right after it / inside the next header
	cut := []int{len(stream), 5000, len(frames[0]), len(frames[0]) + 1}[symChoose("cut", 4)]
	nc.in <- append([]byte(nil), stream[:cut]...)
	symIdle()
	if cut < len(stream) {
		nc.in <- append([]byte(nil), stream[cut:]...)
		symIdle()
	}
	symCover("large-delivered")
	symAssert(!runDone && !nc.closed, "a well-formed stream keeps the connection open")
	symAssert(len(got) == 3, "every message of the stream is delivered exactly once")
	for i := 0; i < len(got) && i < 3; i++ {
		symAssert(bytes.Equal(got[i].token, want[i].token) && bytes.Equal(got[i].payload, want[i].payload), "in stream order, with its own token and payload")
	}
	_ = cc.Close()
	symWaitUntil(func() bool { return runDone })
}

// C03 view: responses that follow a large one in the same read reach their own callers' handlers, nothing inside a
// large payload is taken for a message
func zzC03_tcp_large() { zzC07_run_large() }
