package client

import (
	"bytes"
	"context"
	"net"
	"time"

	"github.com/plgd-dev/go-coap/v3/message"
	"github.com/plgd-dev/go-coap/v3/message/codes"
	"github.com/plgd-dev/go-coap/v3/message/pool"
	coapNet "github.com/plgd-dev/go-coap/v3/net"
	"github.com/plgd-dev/go-coap/v3/net/responsewriter"
)

// in-memory stream socket: records the frames the connection writes; the peer injects bytes through processBuffer

type zzNetConn struct {
	frames [][]byte
	closed bool
}

func (c *zzNetConn) Read(b []byte) (int, error)  { return 0, net.ErrClosed }
func (c *zzNetConn) Write(b []byte) (int, error) { c.frames = append(c.frames, append([]byte(nil), b...)); return len(b), nil }
func (c *zzNetConn) Close() error                { c.closed = true; return nil }
func (c *zzNetConn) LocalAddr() net.Addr         { return zzAddr{} }
func (c *zzNetConn) RemoteAddr() net.Addr        { return zzAddr{} }
func (c *zzNetConn) SetDeadline(t time.Time) error      { return nil }
func (c *zzNetConn) SetReadDeadline(t time.Time) error  { return nil }
func (c *zzNetConn) SetWriteDeadline(t time.Time) error { return nil }

func zzNewTCPConn(nc *zzNetConn, handler HandlerFunc, poolSize uint32) *Conn {
	cfg := Config{}
	cfg.Ctx = context.Background()
	cfg.MaxMessageSize = 1152
	cfg.MessagePool = pool.New(poolSize, 1024)
	cfg.Errors = func(error) {}
	n := 0
	cfg.GetToken = func() (message.Token, error) { n++; return message.Token{0xEE, byte(n)}, nil }
	cfg.Handler = handler
	if cfg.Handler == nil {
		cfg.Handler = func(w *responsewriter.ResponseWriter[*Conn], r *pool.Message) {}
	}
	cfg.LimitClientParallelRequests = 4
	cfg.LimitClientEndpointParallelRequests = 4
	cfg.ReceivedMessageQueueSize = 2
	cfg.ConnectionCacheSize = 64
	cfg.DisableTCPSignalMessageCSM = true
	return NewConnWithOpts(coapNet.NewConn(nc), &cfg)
}

// C03 on the stream connection: two callers, responses arrive in one read or in two, in either order, possibly
// with an unsolicited duplicate of the first response
func zzC03_tcp() {
	nc := &zzNetConn{}
	cc := zzNewTCPConn(nc, nil, 0)
	a := &zzTCall{token: message.Token{0xA1, 0xA2}}
	b := &zzTCall{token: message.Token{0xB1}}
	if symChoose("tokens", 2) == 1 {
		a.token, b.token = message.Token{0x00, 0x01}, message.Token{0x01}
		symCover("lookalike-tokens")
	}
	tagA, tagB := symU8("tagA"), symU8("tagB")
	go zzTDo(cc, a)
	go zzTDo(cc, b)
	symWaitUntil(func() bool { return len(nc.frames) >= 2 })
	ra := zzMkFrame(codes.Content, a.token, []byte{tagA})
	rb := zzMkFrame(codes.Content, b.token, []byte{tagB})
	first, second := ra, rb
	if symChoose("first", 2) == 1 {
		first, second = rb, ra
	}
	stream := append(append([]byte(nil), first...), second...)
	if symChoose("dup", 2) == 1 {
		stream = append(stream, first...) // the peer repeats a response
	}
	buf := bytes.NewBuffer(make([]byte, 0, 64))
	cut := len(first) / 2
	if symChoose("cut", 2) == 1 {
		cut = len(first) + 1
	}
	buf.Write(stream[:cut])
	symAssert(cc.session.processBuffer(buf, cc) == nil, "stream processed")
	buf.Write(stream[cut:])
	symAssert(cc.session.processBuffer(buf, cc) == nil, "stream processed")
	symWaitUntil(func() bool { return a.done && b.done })
	symCover("both-returned")
	symAssert(a.err == nil && b.err == nil, "both requests were answered, so both calls succeed")
	if a.err == nil {
		symAssert(bytes.Equal(a.tok, a.token) && len(a.body) == 1 && a.body[0] == tagA, "caller A gets the response carrying its token and the content produced for it")
	}
	if b.err == nil {
		symAssert(bytes.Equal(b.tok, b.token) && len(b.body) == 1 && b.body[0] == tagB, "caller B gets the response carrying its token and the content produced for it")
	}
	symAssert(a.resp != b.resp || a.resp == nil, "no response object is delivered to two callers")
	symAssert(cc.tokenHandlerContainer.Length() == 0, "no token continuation is left behind")
}

func zzC03_tcp_sametoken() {
	nc := &zzNetConn{}
	cc := zzNewTCPConn(nc, nil, 0)
	tok := message.Token{0xC1, 0xC2}
	a := &zzTCall{token: tok}
	b := &zzTCall{token: tok}
	tag := symU8("tag")
	go zzTDo(cc, a)
	symWaitUntil(func() bool { return len(nc.frames) >= 1 })
	go zzTDo(cc, b)
	symWaitUntil(func() bool { return b.done })
	symCover("second-returned")
	symAssert(b.err != nil, "a request with a token that is still outstanding is rejected")
	symAssert(len(nc.frames) == 1, "and is not transmitted")
	buf := bytes.NewBuffer(nil)
	buf.Write(zzMkFrame(codes.Content, tok, []byte{tag}))
	_ = cc.session.processBuffer(buf, cc)
	symWaitUntil(func() bool { return a.done })
	symAssert(a.err == nil && len(a.body) == 1 && a.body[0] == tag, "the first request still gets its answer")
}

func zzC03_tcp_selftest() {
	nc := &zzNetConn{}
	cc := zzNewTCPConn(nc, nil, 0)
	a := &zzTCall{token: message.Token{0xA1}}
	go zzTDo(cc, a)
	symWaitUntil(func() bool { return len(nc.frames) >= 1 })
	buf := bytes.NewBuffer(nil)
	buf.Write(zzMkFrame(codes.Content, a.token, []byte{1}))
	_ = cc.session.processBuffer(buf, cc)
	symWaitUntil(func() bool { return a.done })
	symAssert(a.err != nil, "selftest: must fail (the request was answered)")
}

// the stream-connection counterpart of udp's zzC03_token_handover: a token reused by another goroutine the moment
// its exchange is over on the wire, before the first call has returned
func zzC03_tcp_token_handover() {
	nc := &zzNetConn{}
	cc := zzNewTCPConn(nc, nil, 0)
	tok := message.Token{0x77}
	tagA, tagB := symU8("tagA"), symU8("tagB")
	a := &zzTCall{token: tok}
	go zzTDo(cc, a)
	symWaitUntil(func() bool { return len(nc.frames) >= 1 })
	symIdle()
	buf := bytes.NewBuffer(nil)
	buf.Write(zzMkFrame(codes.Content, tok, []byte{tagA}))
	_ = cc.session.processBuffer(buf, cc)
	b := &zzTCall{token: tok}
	go zzTDo(cc, b)
	symWaitUntil(func() bool { return a.done })
	symAssert(a.err == nil && len(a.body) == 1 && a.body[0] == tagA, "the first request returns its own response")
	symIdle()
	if b.done {
		symCover("reuse-refused")
		symAssert(b.err != nil, "a request that ends before any response for it arrived was refused")
		return
	}
	symCover("reuse-accepted")
	// listed finding: on the stream connection the first call's deferred clean-up removes the handler the second
	// request registered (fixed on the datagram connection, see known_findings.json)
	symKnown("C03-tcp-token-handover", true)
	c := &zzTCall{token: tok}
	go zzTDo(cc, c)
	symIdle()
	symAssert(c.done && c.err != nil, "a request issued with a token that is still outstanding is rejected")
	buf = bytes.NewBuffer(nil)
	buf.Write(zzMkFrame(codes.Content, tok, []byte{tagB}))
	_ = cc.session.processBuffer(buf, cc)
	symIdle()
	symAssert(b.done && b.err == nil, "the outstanding request is completed by the response the peer produced for it")
	if b.done && b.err == nil {
		symAssert(len(b.body) == 1 && b.body[0] == tagB, "and returns that response")
	}
}
