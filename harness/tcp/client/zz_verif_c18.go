package client

import (
	"time"

	"github.com/plgd-dev/go-coap/v3/message"
	"github.com/plgd-dev/go-coap/v3/message/codes"
	"github.com/plgd-dev/go-coap/v3/net/monitor/inactivity"
)

// C18, the wiring on the stream connection (real Session.Run over an in-memory socket): every message read from
// the peer counts as activity - a request, a signalling message, a response nobody waits for.
func zzC18_tcp_wiring() {
	const period = int64(10 * time.Second)
	closed := 0
	t0 := int64(1 << 41)
	symSetNow(time.Unix(0, t0))
	mon := inactivity.New(time.Duration(period), func(cc *Conn) {
		closed++
		_ = cc.Close()
	})
	nc := zzNewPipe()
	cc := zzNewPipeConnMon(nc, mon)
	runDone := false
	go func() {
		_ = cc.Run()
		runDone = true
	}()
	symIdle()
	d1 := symI64("d1")
	symAssume(d1 > 0 && d1 < period)
	t1 := t0 + d1
	symSetNow(time.Unix(0, t1))
	var seg []byte
	switch symChoose("received", 4) {
	case 0:
		seg = zzMkFrame(codes.GET, message.Token{0x77}, nil)
		symCover("request")
	case 1:
		seg = zzMkFrame(codes.Ping, message.Token{0x78}, nil)
		symCover("peer-ping")
	case 2:
		seg = zzMkFrame(codes.Pong, message.Token{0x79}, nil)
		symCover("stray-pong")
	case 3:
		seg = zzMkFrame(codes.Content, message.Token{0x55}, []byte{1})
		symCover("unexpected-response")
	}
	if symChoose("followed-by-the-beginning-of-another-message", 2) == 1 {
		// the same read also holds the first bytes of a message whose remainder is still on its way
		next := zzMkFrame(codes.GET, message.Token{0x66, 0x67}, []byte{1, 2, 3})
		seg = append(append([]byte(nil), seg...), next[:2]...)
		symCover("partial-tail")
	}
	nc.in <- seg
	symIdle()
	d2 := symI64("d2")
	symAssume(d2 > 0 && d2 < 3*period)
	t2 := t1 + d2
	symSetNow(time.Unix(0, t2))
	cc.CheckExpirations(time.Unix(0, t2))
	symIdle()
	if d2 <= period {
		symAssert(closed == 0 && !nc.closed, "a tick within the period after the last received message does not close")
		_ = cc.Close()
	} else {
		symAssert(closed == 1 && nc.closed, "the first tick after a full period without a received message closes")
	}
	symWaitUntil(func() bool { return runDone })
}
