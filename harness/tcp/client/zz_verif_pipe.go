package client

import (
	"errors"
	"bytes"
	"context"
	"io"
	"net"
	"time"

	"github.com/plgd-dev/go-coap/v3/message"
	"github.com/plgd-dev/go-coap/v3/message/codes"
	"github.com/plgd-dev/go-coap/v3/message/pool"
	coapNet "github.com/plgd-dev/go-coap/v3/net"
	"github.com/plgd-dev/go-coap/v3/net/responsewriter"
	"github.com/plgd-dev/go-coap/v3/tcp/coder"
)

// Shared by the stream-connection harnesses; uses only exported API of the package (so that a change of an
// internal signature cannot make these helpers stale).

type zzAddr struct{}

func (zzAddr) Network() string { return "tcp" }
func (zzAddr) String() string  { return "mem" }

type zzPipe struct {
	in      chan []byte
	closedC chan struct{}
	closed  bool
	pending []byte
	frames  [][]byte
	closes  int
	stalled bool // the peer has stopped reading: a write stays in the socket until the socket is closed
	broken  bool // the peer has reset the stream: every write fails (reads end when the socket is closed)
}

func zzNewPipe() *zzPipe {
	return &zzPipe{in: make(chan []byte, 4), closedC: make(chan struct{})}
}

func (c *zzPipe) Read(b []byte) (int, error) {
	if len(c.pending) == 0 {
		select {
		case seg, ok := <-c.in:
			if !ok {
				return 0, io.EOF // the peer closed its side
			}
			c.pending = seg
		case <-c.closedC:
			return 0, net.ErrClosed
		}
	}
	n := copy(b, c.pending)
	c.pending = c.pending[n:]
	return n, nil
}

func (c *zzPipe) Write(b []byte) (int, error) {
	if c.closed {
		return 0, net.ErrClosed
	}
	if c.stalled {
		<-c.closedC
		return 0, net.ErrClosed
	}
	if c.broken {
		return 0, zzErrReset
	}
	c.frames = append(c.frames, append([]byte(nil), b...))
	return len(b), nil
}

func (c *zzPipe) Close() error {
	c.closes++
	if c.closed {
		return net.ErrClosed
	}
	c.closed = true
	close(c.closedC)
	return nil
}
func (c *zzPipe) LocalAddr() net.Addr                { return zzAddr{} }
func (c *zzPipe) RemoteAddr() net.Addr               { return zzAddr{} }
func (c *zzPipe) SetDeadline(t time.Time) error      { return nil }
func (c *zzPipe) SetReadDeadline(t time.Time) error  { return nil }
func (c *zzPipe) SetWriteDeadline(t time.Time) error { return nil }

func zzNewPipeConn(nc *zzPipe) *Conn { return zzNewPipeConnH(nc, nil, 1152) }

func zzNewPipeConnH(nc *zzPipe, handler HandlerFunc, maxSize uint32) *Conn {
	return zzNewPipeConnX(nc, handler, maxSize, nil)
}

func zzNewPipeConnMon(nc *zzPipe, mon InactivityMonitor) *Conn { return zzNewPipeConnX(nc, nil, 1152, mon) }

var zzErrReset = errors.New("connection reset by peer")
var zzPipeSendCSM bool // the next connection announces itself with a CSM like the default configuration does
var zzPipeRequestMonitor RequestMonitorFunc // optional request monitor for the next connection created
var zzPipePoolSize uint32                  // pool size of the next connection created (0: no recycling)
var zzPipeLimits [2]int64                  // total / per-endpoint parallel-request limits of the next connection (0: 4)

func zzNewPipeConnX(nc *zzPipe, handler HandlerFunc, maxSize uint32, mon InactivityMonitor) *Conn {
	cfg := Config{}
	cfg.Ctx = context.Background()
	cfg.MaxMessageSize = maxSize
	cfg.MessagePool = pool.New(zzPipePoolSize, 1024)
	zzPipePoolSize = 0
	cfg.Errors = func(error) {}
	n := 0
	cfg.GetToken = func() (message.Token, error) { n++; return message.Token{0xEE, byte(n)}, nil }
	cfg.Handler = handler
	if cfg.Handler == nil {
		cfg.Handler = func(w *responsewriter.ResponseWriter[*Conn], r *pool.Message) {}
	}
	cfg.LimitClientParallelRequests = 4
	cfg.LimitClientEndpointParallelRequests = 4
	if zzPipeLimits[0] != 0 || zzPipeLimits[1] != 0 {
		cfg.LimitClientParallelRequests, cfg.LimitClientEndpointParallelRequests = zzPipeLimits[0], zzPipeLimits[1]
		zzPipeLimits = [2]int64{}
	}
	cfg.ReceivedMessageQueueSize = 2
	cfg.ConnectionCacheSize = 64
	cfg.DisableTCPSignalMessageCSM = !zzPipeSendCSM
	zzPipeSendCSM = false
	cfg.CloseSocket = true
	if mon != nil {
		return NewConnWithOpts(coapNet.NewConn(nc), &cfg, WithInactivityMonitor(mon))
	}
	if rm := zzPipeRequestMonitor; rm != nil {
		zzPipeRequestMonitor = nil
		return NewConnWithOpts(coapNet.NewConn(nc), &cfg, WithRequestMonitor(rm))
	}
	return NewConnWithOpts(coapNet.NewConn(nc), &cfg)
}

func zzMkFrame(code codes.Code, token message.Token, payload []byte) []byte {
	m := pool.NewMessage(context.Background())
	m.SetCode(code)
	m.SetToken(token)
	if len(payload) > 0 {
		m.SetContentFormat(message.AppOctets)
		m.SetBody(bytes.NewReader(payload))
	}
	b, err := m.MarshalWithEncoder(coder.DefaultCoder)
	if err != nil {
		return nil
	}
	return append([]byte(nil), b...)
}

func zzDecodeFrame(b []byte) (codes.Code, []byte) {
	var m message.Message
	m.Options = make(message.Options, 0, 8)
	if _, err := coder.DefaultCoder.Decode(b, &m); err != nil {
		return 0, nil
	}
	return m.Code, m.Token
}

type zzTCall struct {
	token message.Token
	resp  *pool.Message
	err   error
	done  bool
	tok   []byte
	body  []byte
}

func zzTDo(cc *Conn, c *zzTCall) {
	req := pool.NewMessage(context.Background())
	req.SetCode(codes.GET)
	req.SetToken(c.token)
	_ = req.SetPath("/a")
	c.resp, c.err = cc.Do(req)
	if c.err == nil && c.resp != nil {
		c.tok = c.resp.Token()
		c.body, _ = c.resp.ReadBody()
	}
	c.done = true
}

