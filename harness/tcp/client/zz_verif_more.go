package client

import (
	"bytes"
	"context"

	"github.com/plgd-dev/go-coap/v3/message"
	"github.com/plgd-dev/go-coap/v3/message/codes"
	"github.com/plgd-dev/go-coap/v3/message/pool"
	"github.com/plgd-dev/go-coap/v3/net/responsewriter"
)

func zzFeed(cc *Conn, frames ...[]byte) error {
	buf := bytes.NewBuffer(make([]byte, 0, 64))
	for _, f := range frames {
		buf.Write(f)
	}
	return cc.session.processBuffer(buf, cc)
}

// C13 on the stream connection: decided histories, then nothing is retained
func zzC13_tcp_history() {
	nc := &zzNetConn{}
	cc := zzNewTCPConn(nc, nil, 0)
	n := symParam("exchanges", 2)
	for i := 0; i < n; i++ {
		base := len(nc.frames)
		tok := message.Token{byte(0xA0 + i), 1}
		switch symChoose("kind", 4) {
		case 0: // answered
			c := &zzTCall{token: tok}
			go zzTDo(cc, c)
			symWaitUntil(func() bool { return len(nc.frames) >= base+1 })
			_ = zzFeed(cc, zzMkFrame(codes.Content, tok, []byte{1}))
			symWaitUntil(func() bool { return c.done })
			symAssert(c.err == nil, "answered request succeeds")
			symCover("answered")
		case 1: // cancelled while waiting
			ctx, cancel := context.WithCancel(context.Background())
			c := &zzTCall{token: tok}
			go func() {
				req := pool.NewMessage(ctx)
				req.SetCode(codes.GET)
				req.SetToken(tok)
				_ = req.SetPath("/a")
				c.resp, c.err = cc.Do(req)
				c.done = true
			}()
			symWaitUntil(func() bool { return len(nc.frames) >= base+1 })
			cancel()
			symWaitUntil(func() bool { return c.done })
			symAssert(c.err != nil, "cancelled request returns an error")
			// the late response must not leave anything behind either
			_ = zzFeed(cc, zzMkFrame(codes.Content, tok, []byte{1}))
			symCover("cancelled")
		case 2: // ping answered or given up
			pong := false
			stop, err := cc.AsyncPing(func() { pong = true })
			symAssert(err == nil, "ping is sent")
			if err != nil {
				return
			}
			if symChoose("pong", 2) == 0 {
				// answered: the exchange has ended, with or without the caller also invoking the cancel function
				_, t := zzDecodeFrame(nc.frames[base])
				_ = zzFeed(cc, zzMkFrame(codes.Pong, t, nil))
				symIdle()
				symAssert(pong, "the pong reaches the caller")
				if symChoose("cancel-after-pong", 2) == 1 {
					stop()
				}
				symCover("ping-answered")
			} else {
				stop() // given up
			}
			symCover("ping")
		case 3: // one-way write
			m := pool.NewMessage(context.Background())
			m.SetCode(codes.POST)
			m.SetToken(tok)
			symAssert(cc.WriteMessage(m) == nil, "one-way write succeeds")
			symCover("one-way")
		}
	}
	symCover("done")
	symAssert(cc.tokenHandlerContainer.Length() == 0, "no waiting token continuation is retained on the stream connection")
}

// C20 on the stream connection: suppressed responses are never written, others are
func zzC20_tcp_wire() {
	nc := &zzNetConn{}
	code := symU8("respcode")
	symAssume(code >= 0x41 && code <= 0xbf)
	refused := false
	cc := zzNewTCPConn(nc, func(w *responsewriter.ResponseWriter[*Conn], r *pool.Message) {
		refused = w.SetResponse(codes.Code(code), message.TextPlain, bytes.NewReader([]byte{1})) != nil
	}, 0)
	v := symU8("noresponse")
	req := pool.NewMessage(context.Background())
	// the request method: one of the four of RFC 7252, FETCH / PATCH / iPATCH of RFC 8132, or an unassigned 0.xx
	req.SetCode([]codes.Code{codes.GET, codes.POST, codes.PUT, codes.DELETE, 5, 6, 7, 0x1f}[symChoose("method", 8)])
	req.SetToken(message.Token{0xA1})
	present := symChoose("option", 2) == 0
	if present {
		req.SetOptionUint32(message.NoResponse, uint32(v))
	}
	cc.ProcessReceivedMessage(req)
	bit := uint32(0)
	switch code >> 5 {
	case 2:
		bit = 2
	case 4:
		bit = 8
	case 5:
		bit = 16
	}
	suppressed := present && uint32(v)&bit != 0
	symObserve("refused", refused)
	symObserve("frames", len(nc.frames))
	if suppressed {
		symCover("suppressed")
		symAssert(refused && len(nc.frames) == 0, "a suppressed response is refused and never put on the stream")
	} else {
		symCover("wanted")
		symAssert(!refused && len(nc.frames) == 1, "a response that was not suppressed is written")
		if len(nc.frames) == 1 {
			c, t := zzDecodeFrame(nc.frames[0])
			symAssert(uint8(c) == code && bytes.Equal(t, []byte{0xA1}), "with its code and the request's token")
		}
	}
}

// C12 on the stream connection with a recycling pool: a held response stays valid while other traffic flows
func zzC12_tcp_response() {
	symGhost(true)
	nc := &zzNetConn{}
	cc := zzNewTCPConn(nc, nil, 1024)
	a := &zzTCall{token: message.Token{0xA1, 0xA2}}
	tag := symU8("tag")
	// the request is an ordinary GET answered by 2.05, or a Ping signal sent through Do and answered by a Pong
	signal := symChoose("request-is-ping-signal", 2) == 1
	if signal {
		symCover("ping-through-do")
		go func() {
			req := pool.NewMessage(context.Background())
			req.SetCode(codes.Ping)
			req.SetToken(a.token)
			a.resp, a.err = cc.Do(req)
			if a.err == nil && a.resp != nil {
				a.tok = a.resp.Token()
				a.body, _ = a.resp.ReadBody()
			}
			a.done = true
		}()
	} else {
		go zzTDo(cc, a)
	}
	symWaitUntil(func() bool { return len(nc.frames) >= 1 })
	if signal {
		_ = zzFeed(cc, zzMkFrame(codes.Pong, a.token, []byte{tag}))
	} else {
		_ = zzFeed(cc, zzMkFrame(codes.Content, a.token, []byte{tag}))
	}
	symWaitUntil(func() bool { return a.done })
	symIdle()
	symAssert(a.err == nil && a.resp != nil, "answered")
	if a.resp == nil {
		return
	}
	b := &zzTCall{token: message.Token{0xB1}}
	go zzTDo(cc, b)
	symWaitUntil(func() bool { return len(nc.frames) >= 2 })
	_ = zzFeed(cc, zzMkFrame(codes.Content, b.token, []byte{tag + 1}), zzMkFrame(codes.Content, message.Token{0xCC}, []byte{9}))
	symWaitUntil(func() bool { return b.done })
	symCover("held")
	symAssert(!symReleased(a.resp), "a response the application holds is not recycled")
	body, _ := a.resp.ReadBody()
	symAssert(bytes.Equal(a.resp.Token(), a.token) && len(body) == 1 && body[0] == tag, "its content is unchanged")
	cc.ReleaseMessage(a.resp)
	if b.resp != nil {
		cc.ReleaseMessage(b.resp)
	}
}

// C12 on the stream connection: a request handler that replaces the response message (ResponseWriter.SetMessage,
// which gives the replaced one back) or takes it out (Swap) - whatever the writer holds when the handler returns is
// written and given back exactly once, nothing is given back twice
func zzC12_tcp_handler_setmessage() {
	symGhost(true)
	nc := &zzNetConn{}
	op := symChoose("handler-does", 3)
	var cc *Conn
	var installed, taken *pool.Message
	cc = zzNewTCPConn(nc, func(w *responsewriter.ResponseWriter[*Conn], r *pool.Message) {
		switch op {
		case 0:
			_ = w.SetResponse(codes.Content, message.TextPlain, bytes.NewReader([]byte{1}))
		case 1:
			installed = cc.AcquireMessage(r.Context())
			installed.SetCode(codes.Changed)
			installed.SetToken(r.Token())
			w.SetMessage(installed)
			symCover("set-message")
		case 2:
			installed = cc.AcquireMessage(r.Context())
			installed.SetCode(codes.Changed)
			installed.SetToken(r.Token())
			taken = w.Swap(installed)
			symCover("swap")
		}
	}, 1024)
	_ = zzFeed(cc, zzMkFrame(codes.POST, message.Token{0xA1}, []byte{7}))
	symIdle()
	symAssert(len(nc.frames) == 1, "the response is written once")
	if installed != nil {
		symAssert(symReleased(installed), "the message the handler installed is given back after it was written")
	}
	if taken != nil {
		symAssert(!symReleased(taken), "a message the handler took out of the writer is the handler's")
		cc.ReleaseMessage(taken)
	}
	x, y, z := cc.AcquireMessage(cc.Context()), cc.AcquireMessage(cc.Context()), cc.AcquireMessage(cc.Context())
	symAssert(x != y && y != z && x != z, "the pool never hands one message to two owners")
}
