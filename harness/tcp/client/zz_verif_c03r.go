package client

import (
	"context"

	"github.com/plgd-dev/go-coap/v3/message"
	"github.com/plgd-dev/go-coap/v3/message/codes"
	"github.com/plgd-dev/go-coap/v3/message/pool"
)

// C03 on the stream connection with a recycling pool (real Session.Run): a first exchange whose response carries a
// payload and is released by the caller, then exchanges whose responses have no payload, or a shorter one, or
// fewer options: every call returns exactly the content the peer produced for it - nothing of an earlier message
// that used the same pooled object
func zzC03_tcp_recycle() {
	zzPipePoolSize = 1024
	nc := zzNewPipe()
	cc := zzNewPipeConn(nc)
	runDone := false
	go func() {
		_ = cc.Run()
		runDone = true
	}()
	do := func(tok message.Token, code codes.Code, payload []byte, release bool) *zzTCall {
		c := &zzTCall{token: tok}
		base := len(nc.frames)
		go zzTDo(cc, c)
		symWaitUntil(func() bool { return len(nc.frames) > base })
		nc.in <- zzMkFrame(code, tok, payload)
		symWaitUntil(func() bool { return c.done })
		symIdle()
		if release && c.resp != nil {
			cc.ReleaseMessage(c.resp)
		}
		return c
	}
	p1 := symBytes("payload1", 3)
	a := do(message.Token{0xA1}, codes.Content, p1, true)
	symAssert(a.err == nil && len(a.body) == 3 && a.body[0] == p1[0], "the first call returns its response")
	second := symChoose("second-response", 3)
	var p2 []byte
	code2 := codes.Deleted
	switch second {
	case 0: // no payload at all
		symCover("no-payload")
	case 1: // a shorter payload
		p2 = symBytes("payload2", 1)
		code2 = codes.Content
		symCover("shorter-payload")
	case 2: // an empty 2.05
		code2 = codes.Content
		symCover("empty-content")
	}
	b := do(message.Token{0xB1, 0xB2}, code2, p2, false)
	symAssert(b.err == nil && b.resp != nil, "the second call returns its response")
	if b.err == nil && b.resp != nil {
		symAssert(b.resp.Code() == code2 && len(b.tok) == 2 && b.tok[0] == 0xB1, "with its own code and token")
		symAssert(len(b.body) == len(p2) && (len(p2) == 0 || b.body[0] == p2[0]), "and exactly the content the peer produced for it - nothing left over from the message that used the pooled object before")
		_, cferr := b.resp.ContentFormat()
		symAssert((cferr == nil) == (len(p2) > 0), "options of an earlier message do not show through either")
	}
	_ = cc.Close()
	symWaitUntil(func() bool { return runDone })
	_ = context.Background
	_ = pool.NewMessage
}

// C16 wiring on the stream connection: the connection's configured total / per-endpoint limits are the ones that
// govern its requests (total 1, per-endpoint 2: a second request to another path waits for the first)
func zzC16_tcp_wiring() {
	total := int64(1 + symChoose("total", 2))
	perEP := int64(1 + symChoose("per-endpoint", 2))
	zzPipeLimits = [2]int64{total, perEP}
	nc := zzNewPipe()
	cc := zzNewPipeConn(nc)
	runDone := false
	go func() {
		_ = cc.Run()
		runDone = true
	}()
	samePath := symChoose("same-path", 2) == 1
	calls := []*zzTCall{{token: message.Token{0xA1}}, {token: message.Token{0xB1}}}
	paths := []string{"/a", "/b"}
	if samePath {
		paths[1] = "/a"
	}
	for i, c := range calls {
		c := c
		path := paths[i]
		go func() {
			req := pool.NewMessage(context.Background())
			req.SetCode(codes.GET)
			req.SetToken(c.token)
			_ = req.SetPath(path)
			c.resp, c.err = cc.Do(req)
			c.done = true
		}()
	}
	symIdle()
	allowed := 2
	if total == 1 || (samePath && perEP == 1) {
		allowed = 1
	}
	symAssert(len(nc.frames) == allowed, "requests in flight on the connection are bounded by the configured total limit and, per path, by the per-endpoint limit - and not bounded more than that")
	symCover("limited")
	// answer whatever is on the wire, one after the other, until both calls have returned
	for k := 0; k < 2; k++ {
		if k < len(nc.frames) {
			_, tok := zzDecodeFrame(nc.frames[k])
			nc.in <- zzMkFrame(codes.Content, tok, []byte{1})
			symIdle()
		}
	}
	symAssert(calls[0].done && calls[1].done && calls[0].err == nil && calls[1].err == nil, "both requests complete once answered")
	_ = cc.Close()
	symWaitUntil(func() bool { return runDone })
}
