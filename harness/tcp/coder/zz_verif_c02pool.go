package coder

import (
	"bytes"
	"context"

	"github.com/plgd-dev/go-coap/v3/message"
	"github.com/plgd-dev/go-coap/v3/message/pool"
)

// stream frames through the pooled-message API (fresh and recycled messages): what is decoded - token, option
// values, payload - does not share memory with the caller's receive buffer; short frames (a 2..4-byte frame can
// already carry a token, an option value or a payload) included
func zzC02_tcp_pool() {
	n := symChoose("len", symParam("maxlen", 6)+1)
	data := symBytes("d", n)
	symAssume(n >= 2)
	symAssume(data[0]&0x0f <= 8 && data[0]>>4 < 13)
	symAssume(2+int(data[0]&0x0f)+int(data[0]>>4) == n)
	r := zzRefHeader(data)
	symAssume(!r.bad && !r.need && r.frame == int64(n))
	symAssume(r.code < 225 || r.code > 229)
	hl := symConcrete(r.hdrLen)
	m := pool.NewMessage(context.Background())
	if symChoose("recycled", 2) == 1 {
		// a message that was used before (as the pool hands it out again)
		m.SetCode(0x45)
		m.SetToken(message.Token{9, 9, 9})
		m.SetOptionBytes(message.ETag, []byte{7, 7})
		m.SetBody(bytes.NewReader([]byte{1, 2, 3}))
		m.Reset()
		symCover("recycled")
	}
	used, err := m.UnmarshalWithDecoder(DefaultCoder, data)
	ok, opts, payload := zzRefOptions(data, hl, r.code)
	symAssert((err == nil) == ok, "pooled stream decode accepts exactly what the reference accepts")
	if err != nil || !ok {
		return
	}
	symCover("accepted")
	symAssert(used == n, "pooled stream decode consumes the frame")
	tok := append([]byte(nil), m.Token()...)
	symAssert(bytes.Equal(tok, data[hl-r.tkl:hl]), "pooled stream decode: token")
	symAssert(len(m.Options()) == len(opts), "pooled stream decode: option count")
	body, _ := m.ReadBody()
	symAssert(bytes.Equal(body, data[payload:]), "pooled stream decode: payload")
	var vals [][]byte
	alias := false
	for _, o := range m.Options() {
		vals = append(vals, append([]byte(nil), o.Value...))
		if len(o.Value) > 0 && symSameObject(o.Value, data) {
			alias = true
		}
	}
	if len(m.Token()) > 0 && symSameObject(m.Token(), data) {
		alias = true
	}
	body = append([]byte(nil), body...)
	// the caller reuses its receive buffer
	for i := range data {
		data[i] ^= 0x5a
	}
	changed := !bytes.Equal(m.Token(), tok)
	for i, o := range m.Options() {
		if !bytes.Equal(o.Value, vals[i]) {
			changed = true
		}
	}
	body2, _ := m.ReadBody()
	if !bytes.Equal(body2, body) {
		changed = true
	}
	symAssert(!alias && !changed, "decoded message does not alias the caller's receive buffer")
}
