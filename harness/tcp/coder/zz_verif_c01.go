package coder // tcp

import (
	"bytes"
	"errors"

	"github.com/plgd-dev/go-coap/v3/message"
	"github.com/plgd-dev/go-coap/v3/message/codes"
)

// Independent copy of the option length registry (RFC 7252 §5.10, RFC 7641, RFC 7959, RFC 7967); options that are
// not in the registry may carry any length.
func zzPureLegalLen(code uint8, id uint16, n int) bool {
	min, max := 0, 65804
	switch code {
	case 225: // 7.01 CSM (RFC 8323 §5.3)
		switch id {
		case 2:
			max = 4
		case 4:
			max = 0
		}
		return n >= min && n <= max
	case 226, 227: // 7.02 Ping, 7.03 Pong
		if id == 2 {
			max = 0
		}
		return n >= min && n <= max
	case 228: // 7.04 Release
		switch id {
		case 2:
			min, max = 1, 255
		case 4:
			max = 3
		}
		return n >= min && n <= max
	case 229: // 7.05 Abort
		if id == 2 {
			max = 2
		}
		return n >= min && n <= max
	}
	switch id {
	case 1:
		max = 8
	case 3:
		min, max = 1, 255
	case 4:
		min, max = 1, 8
	case 5:
		max = 0
	case 6:
		max = 3
	case 7:
		max = 2
	case 8, 11, 15, 20:
		max = 255
	case 12, 17:
		max = 2
	case 14, 28, 60:
		max = 4
	case 23, 27:
		max = 3
	case 35:
		min, max = 1, 1034
	case 39:
		min, max = 1, 255
	case 258:
		max = 1
	}
	return n >= min && n <= max
}

type zzMsg struct {
	m    message.Message
	ids  []uint16
	vals [][]byte
}

// zzBuild builds an arbitrary well-formed message within the harness parameters.
func zzBuild() zzMsg {
	k := symChoose("nopts", symParam("maxopts", 2)+1)
	tkl := symChoose("tkl", 9)
	if symParam("fewtokens", 0) == 1 {
		symAssume(tkl == 0 || tkl == 3 || tkl == 8)
	}
	var z zzMsg
	z.m.Token = symBytes("tok", tkl)
	code := symU8("code")
	if symParam("plaincodes", 0) == 1 {
		symAssume(code < 225 || code > 229)
	}
	z.m.Code = codes.Code(code)
	z.m.Options = make(message.Options, 0, k)
	prev := uint16(0)
	maxv := symParam("maxvaluelen", 14)
	for i := 0; i < k; i++ {
		id := symU16("id")
		symAssume(id >= prev && id != 0)
		n := symChoose("vlen", maxv+1)
		if symParam("bigvalues", 0) == 1 && n == maxv {
			n = []int{268, 269, 300}[symChoose("big", 3)]
		}
		symAssume(zzPureLegalLen(code, id, n))
		v := symBytes("val", n)
		z.m.Options = append(z.m.Options, message.Option{ID: message.OptionID(id), Value: v})
		z.ids = append(z.ids, id)
		z.vals = append(z.vals, v)
		prev = id
	}
	pl := symChoose("plen", symParam("maxpayload", 2)+1)
	if symParam("bigpayload", 0) == 1 && pl == symParam("maxpayload", 2) {
		pl = []int{255, 270, 65805}[symChoose("bigp", 3)]
	}
	z.m.Payload = symBytes("pay", pl)
	return z
}

func zzSameOptions(z *zzMsg, out message.Options) bool {
	if len(out) != len(z.ids) {
		return false
	}
	ok := true
	for i := range out {
		if uint16(out[i].ID) != z.ids[i] || !bytes.Equal(out[i].Value, z.vals[i]) {
			ok = false
		}
	}
	return ok
}

// stream framing header lemma: getHeader and DecodeHeader are inverse for every body length below 2^31-65536
func zzC01_tcp_header() {
	n := symInt("bodylen")
	symAssume(n >= 0 && n < 0x7fff0000)
	tkl := symChoose("tkl", 9)
	nib, ext := getHeader(n)
	hdr := []byte{nib<<4 | byte(tkl)}
	hdr = append(hdr, ext...)
	hdr = append(hdr, symU8("code"))
	hdr = append(hdr, symBytes("tok", tkl)...)
	var h MessageHeader
	used, err := DefaultCoder.DecodeHeader(hdr, &h)
	symObserve("hdr", hdr)
	symAssert(err == nil, "DecodeHeader accepts the header Encode builds")
	symAssert(used == len(hdr), "DecodeHeader consumes exactly the header")
	symAssert(int64(h.MessageLength) == int64(len(hdr))+int64(n), "declared frame length is header + body for every length class")
	want := 0
	switch {
	case n >= 65805:
		want = 4
	case n >= 269:
		want = 2
	case n >= 13:
		want = 1
	}
	symAssert(len(ext) == want, "extended length uses the class of RFC 8323 section 3.2")
	symCover("header")
}

// whole-message round trip, Size/Encode agreement
func zzC01_tcp_roundtrip() {
	z := zzBuild()
	c := DefaultCoder
	size, err := c.Size(z.m)
	symAssert(err == nil, "Size succeeds on a well-formed message")
	buf := make([]byte, size)
	n, err := c.Encode(z.m, buf)
	symAssert(err == nil, "Encode succeeds into a buffer of Size bytes")
	symAssert(n == size, "Encode writes exactly Size bytes")
	var out message.Message
	out.Options = make(message.Options, 0, len(z.ids)+1)
	used, err := c.Decode(buf, &out)
	symObserve("size", size)
	if size < 64 {
		symObserve("buf", buf)
	}
	symAssert(err == nil, "Decode accepts what Encode produced")
	symAssert(used == size, "Decode consumes exactly the bytes produced")
	symAssert(out.Code == z.m.Code, "code round-trips")
	symAssert(bytes.Equal(out.Token, z.m.Token), "token round-trips")
	symAssert(zzSameOptions(&z, out.Options), "options round-trip (numbers, order, values)")
	symAssert(bytes.Equal(out.Payload, z.m.Payload), "payload round-trips")
	symCover("roundtrip")
}

// same round trip, every code including the signalling codes 7.01-7.05 (which switch the option registry)
func zzC01_tcp_signals() { zzC01_tcp_roundtrip() }

// the length classes of the stream header from the encoder's side: messages whose options+payload length sits on
// and next to every class border (12/13, 268/269, 65804/65805) are framed so that the decoder gets them back
func zzC01_tcp_borders() {
	total := []int{12, 13, 14, 268, 269, 270, 65804, 65805, 65806}[symChoose("length", symParam("borders", 6))]
	// no options: the length field counts the payload marker and the payload
	p := make([]byte, total-1)
	if len(p) > 0 {
		p[0] = symU8("first")
		p[len(p)-1] = symU8("last")
	}
	m := message.Message{Code: 0x45, Token: []byte{0xA1}, Payload: p}
	c := DefaultCoder
	size, err := c.Size(m)
	symAssert(err == nil, "Size succeeds")
	buf := make([]byte, size)
	n, err := c.Encode(m, buf)
	symAssert(err == nil && n == size, "Encode writes exactly Size bytes")
	var h MessageHeader
	_, herr := c.DecodeHeader(buf, &h)
	symAssert(herr == nil && int(h.MessageLength) == size, "the header declares the length of the whole frame")
	var out message.Message
	out.Options = make(message.Options, 0, 2)
	used, derr := c.Decode(buf, &out)
	symAssert(derr == nil && used == size && out.Code == m.Code && bytes.Equal(out.Token, m.Token) && bytes.Equal(out.Payload, p), "a message on a length-class border round-trips")
	symCover("border")
}

func zzC01_tcp_short() {
	z := zzBuild()
	c := DefaultCoder
	size, err := c.Size(z.m)
	symAssert(err == nil, "Size succeeds on a well-formed message")
	b := symInt("buflen")
	symAssume(b >= 0 && b < size)
	backing := make([]byte, size+2)
	for i := range backing {
		backing[i] = 0xA5
	}
	n, err := c.Encode(z.m, backing[:b])
	symAssert(errors.Is(err, message.ErrTooSmall), "Encode into a too-small buffer fails with ErrTooSmall")
	symAssert(n == size, "Encode into a too-small buffer reports the needed size")
	clean := true
	for i := b; i < len(backing); i++ {
		if backing[i] != 0xA5 {
			clean = false
		}
	}
	symAssert(clean, "Encode does not touch memory beyond the buffer")
	symCover("short")
}

func zzC01_tcp_refuse() {
	tkl := 9 + symChoose("tkl", 8)
	var m message.Message
	m.Token = symBytes("tok", tkl)
	m.Code = codes.Code(symU8("code"))
	buf := make([]byte, 64)
	_, err := DefaultCoder.Encode(m, buf)
	symAssert(err != nil, "stream Encode refuses an oversized token")
	_, serr := DefaultCoder.Size(m)
	symAssert(serr != nil, "stream Size refuses an oversized token")
	symCover("invalid")
}

func zzC01_tcp_selftest() {
	z := zzBuild()
	size, _ := DefaultCoder.Size(z.m)
	symAssert(size < 4, "selftest: must fail (messages can be longer)")
}
