package coder

import (
	"bytes"
	"errors"

	"github.com/plgd-dev/go-coap/v3/message"
)

// C02 (stream framing) — reference written from RFC 8323 §3.2 (frame header) and RFC 7252 §3.1 (options), with the
// library's documented leniencies. Lengths are computed in 64-bit precision.

type zzHdr struct {
	need   bool  // more bytes are needed to see the whole header
	bad    bool  // message format error (token length 9..15, or a frame length that cannot be represented)
	hdrLen int   // bytes up to and including the token
	frame  int64 // total frame length
	code   uint8
	tkl    int
}

func zzRefHeader(data []byte) zzHdr {
	var h zzHdr
	if len(data) < 1 {
		h.need = true
		return h
	}
	lenNib := int(data[0] >> 4)
	h.tkl = int(data[0] & 0x0f)
	if h.tkl > 8 {
		h.bad = true
		return h
	}
	ext := 0
	var body int64
	switch lenNib {
	case 13:
		ext = 1
	case 14:
		ext = 2
	case 15:
		ext = 4
	}
	if len(data) < 1+ext {
		h.need = true
		return h
	}
	switch lenNib {
	case 13:
		body = int64(data[1]) + 13
	case 14:
		body = (int64(data[1])<<8 | int64(data[2])) + 269
	case 15:
		body = (int64(data[1])<<24 | int64(data[2])<<16 | int64(data[3])<<8 | int64(data[4])) + 65805
	default:
		body = int64(lenNib)
	}
	h.hdrLen = 1 + ext + 1 + h.tkl
	h.frame = int64(h.hdrLen) + body
	if h.frame > 0xffffffff {
		h.bad = true // not representable in the header structure: must be refused, not wrapped
		return h
	}
	if len(data) < h.hdrLen {
		h.need = true
		return h
	}
	h.code = data[1+ext]
	return h
}

// header pre-parsing agrees with the reference on every byte string up to the bound
func zzC02_tcp_header() {
	n := symChoose("len", symParam("maxlen", 8)+2)
	if n == symParam("maxlen", 8)+1 {
		n = 11 // shortest complete header with a reserved token length (9)
	}
	data := symBytes("d", n)
	var h MessageHeader
	used, err := DefaultCoder.DecodeHeader(data, &h)
	symObserve("err", err != nil)
	symObserve("short", errors.Is(err, message.ErrShortRead))
	r := zzRefHeader(data)
	switch {
	case r.bad:
		symCover("format-error")
		symAssert(err != nil, "header with token length 9..15 or unrepresentable frame length is refused")
	case r.need:
		symCover("need-more")
		symAssert(errors.Is(err, message.ErrShortRead), "incomplete header asks for more bytes")
	default:
		symCover("complete")
		symAssert(err == nil, "complete well-formed header is accepted")
		symAssert(used == r.hdrLen && int(h.Length) == r.hdrLen, "header length equals the reference")
		symAssert(int64(h.MessageLength) == r.frame, "total frame length equals the reference (64-bit arithmetic)")
		symAssert(uint8(h.Code) == r.code && h.Code <= 255, "code equals the reference")
		symAssert(bytes.Equal(h.Token, data[r.hdrLen-r.tkl:r.hdrLen]), "token equals the reference")
	}
}

type zzRefOpt struct {
	id         uint16
	start, end int
}

func zzRefExt(data []byte, pos int, nib int) (val int, npos int, ok bool) {
	switch nib {
	case 13:
		if pos+1 > len(data) {
			return 0, pos, false
		}
		return int(data[pos]) + 13, pos + 1, true
	case 14:
		if pos+2 > len(data) {
			return 0, pos, false
		}
		return (int(data[pos])<<8 | int(data[pos+1])) + 269, pos + 2, true
	}
	return nib, pos, true
}

func zzRefOptions(data []byte, pos int, code uint8) (ok bool, opts []zzRefOpt, payload int) {
	prev := 0
	payload = len(data)
	for pos < len(data) {
		b := data[pos]
		if b == 0xff {
			return true, opts, pos + 1
		}
		d := int(b >> 4)
		l := int(b & 0x0f)
		if d == 15 || l == 15 {
			return false, nil, 0
		}
		pos++
		var okx bool
		d, pos, okx = zzRefExt(data, pos, d)
		if !okx {
			return false, nil, 0
		}
		l, pos, okx = zzRefExt(data, pos, l)
		if !okx {
			return false, nil, 0
		}
		if pos+l > len(data) {
			return false, nil, 0
		}
		l = symConcrete(l)
		id := prev + d
		if id > 65535 {
			return false, nil, 0
		}
		if id != 0 && zzPureLegalLen(code, uint16(id), l) {
			opts = append(opts, zzRefOpt{uint16(id), pos, pos + l})
		}
		pos += l
		prev = id
	}
	return true, opts, payload
}

// whole frames: a buffer that holds exactly one declared frame decodes as the reference says
func zzC02_tcp_decode() {
	n := symChoose("len", symParam("maxlen", 7)+1)
	data := symBytes("d", n)
	symAssume(n >= 2)
	// case split on the first byte: frames within the bound have no extended length field
	symAssume(data[0]&0x0f <= 8 && data[0]>>4 < 13)
	symAssume(2+int(data[0]&0x0f)+int(data[0]>>4) == n)
	tkl0 := symConcrete(int(data[0] & 0x0f))
	nib0 := symConcrete(int(data[0] >> 4))
	_ = nib0
	_ = tkl0
	r := zzRefHeader(data)
	symAssume(!r.bad && !r.need)
	symAssume(r.frame == int64(n))
	if symParam("plaincodes", 1) == 1 {
		symAssume(r.code < 225 || r.code > 229)
	}
	if symParam("signalcodes", 0) == 1 {
		// only the signalling codes 7.01-7.05, each with its own option registry
		symAssume(r.code >= 225 && r.code <= 229)
	}
	hl := symConcrete(r.hdrLen)
	var out message.Message
	out.Options = make(message.Options, 0, n+1)
	used, err := DefaultCoder.Decode(data, &out)
	symObserve("accept", err == nil)
	ok, opts, payload := zzRefOptions(data, hl, r.code)
	if ok {
		symCover("accepted")
		symAssert(err == nil, "stream decoder accepts what the reference accepts")
		symAssert(used == n, "stream decoder consumes the frame")
		symAssert(uint8(out.Code) == r.code && bytes.Equal(out.Token, data[hl-r.tkl:hl]), "code and token equal the reference")
		symAssert(len(out.Options) == len(opts), "option count equals the reference (after documented drops)")
		if len(out.Options) == len(opts) {
			same := true
			for i := range opts {
				if uint16(out.Options[i].ID) != opts[i].id || !bytes.Equal(out.Options[i].Value, data[opts[i].start:opts[i].end]) {
					same = false
				}
			}
			symAssert(same, "option numbers and values equal the reference")
		}
		symAssert(bytes.Equal(out.Payload, data[payload:]), "payload equals the reference")
		size, serr := DefaultCoder.Size(out)
		symAssert(serr == nil, "accepted frame can be re-encoded (Size)")
		buf := make([]byte, size)
		m, eerr := DefaultCoder.Encode(out, buf)
		symAssert(eerr == nil && m == size, "accepted frame can be re-encoded (Encode)")
		var out2 message.Message
		out2.Options = make(message.Options, 0, n+1)
		used2, derr := DefaultCoder.Decode(buf[:m], &out2)
		symAssert(derr == nil && used2 == m, "canonical encoding decodes")
		same2 := out2.Code == out.Code && bytes.Equal(out2.Token, out.Token) && bytes.Equal(out2.Payload, out.Payload) && len(out2.Options) == len(out.Options)
		if same2 {
			for i := range out.Options {
				if out2.Options[i].ID != out.Options[i].ID || !bytes.Equal(out2.Options[i].Value, out.Options[i].Value) {
					same2 = false
				}
			}
		}
		symAssert(same2, "decode(encode(decode(x))) == decode(x)")
	} else {
		symCover("rejected")
		symAssert(err != nil, "stream decoder rejects what the reference rejects")
	}
}

// totality on arbitrary bytes (no assumption on the declared length): Decode returns, never panics
func zzC02_tcp_total() {
	n := symChoose("len", symParam("maxlen", 7)+1)
	data := symBytes("d", n)
	var out message.Message
	out.Options = make(message.Options, 0, n+1)
	used, err := DefaultCoder.Decode(data, &out)
	symObserve("accept", err == nil)
	if err == nil {
		symCover("accepted")
		symAssert(used <= n, "consumed byte count is within the buffer")
	}
}

func zzC02_tcp_selftest() {
	data := symBytes("d", 3)
	var h MessageHeader
	_, err := DefaultCoder.DecodeHeader(data, &h)
	symAssert(err != nil, "selftest: must fail (some 3-byte headers are complete)")
}

// the same decision restricted to the signalling codes (7.01-7.05), whose option numbers mean something else
func zzC02_tcp_decode_signals() { zzC02_tcp_decode() }
