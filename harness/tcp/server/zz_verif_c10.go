package server

import (
	"bytes"
	"context"
	"io"
	"net"
	"time"

	"github.com/plgd-dev/go-coap/v3/message"
	"github.com/plgd-dev/go-coap/v3/message/codes"
	"github.com/plgd-dev/go-coap/v3/message/pool"
	coapNet "github.com/plgd-dev/go-coap/v3/net"
	"github.com/plgd-dev/go-coap/v3/net/responsewriter"
	"github.com/plgd-dev/go-coap/v3/tcp/client"
	"github.com/plgd-dev/go-coap/v3/tcp/coder"
)

// C10 on the stream server — the real Server.Serve accept loop, one real connection (Session.Run, reader loop) per
// accepted in-memory socket. A well-behaved peer sends two requests; an adversarial peer connects and misbehaves in
// a decided way at a decided moment; afterwards a third peer connects. The well-behaved peers get exactly their
// own answers in order, the server keeps accepting, Stop ends Serve and closes every socket.

type zzAddr struct{ id byte }

func (zzAddr) Network() string  { return "tcp" }
func (a zzAddr) String() string { return string([]byte{'m', 'e', 'm', '0' + a.id}) }

type zzPipe struct {
	id      byte
	in      chan []byte
	closedC chan struct{}
	closed  bool
	pending []byte
	out     []byte
	stalled bool // the peer does not read (or never finishes its handshake): a write stays in the socket until it is closed
}

func zzNewPipe(id byte) *zzPipe {
	return &zzPipe{id: id, in: make(chan []byte, 4), closedC: make(chan struct{})}
}

func (c *zzPipe) Read(b []byte) (int, error) {
	if len(c.pending) == 0 {
		select {
		case seg, ok := <-c.in:
			if !ok {
				return 0, io.EOF
			}
			c.pending = seg
		case <-c.closedC:
			return 0, net.ErrClosed
		}
	}
	n := copy(b, c.pending)
	c.pending = c.pending[n:]
	return n, nil
}

func (c *zzPipe) Write(b []byte) (int, error) {
	if c.closed {
		return 0, net.ErrClosed
	}
	if c.stalled {
		<-c.closedC
		return 0, net.ErrClosed
	}
	c.out = append(c.out, b...)
	return len(b), nil
}

func (c *zzPipe) Close() error {
	if c.closed {
		return net.ErrClosed
	}
	c.closed = true
	close(c.closedC)
	return nil
}
func (c *zzPipe) LocalAddr() net.Addr                { return zzAddr{0} }
func (c *zzPipe) RemoteAddr() net.Addr               { return zzAddr{c.id} }
func (c *zzPipe) SetDeadline(t time.Time) error      { return nil }
func (c *zzPipe) SetReadDeadline(t time.Time) error  { return nil }
func (c *zzPipe) SetWriteDeadline(t time.Time) error { return nil }

type zzListener struct {
	conns   chan net.Conn
	errs    chan error
	closedC chan struct{}
	closed  bool
}

func (l *zzListener) AcceptWithContext(ctx context.Context) (net.Conn, error) {
	select {
	case c := <-l.conns:
		return c, nil
	case err := <-l.errs:
		return nil, err // a failed connection attempt
	case <-l.closedC:
		return nil, coapNet.ErrListenerIsClosed
	case <-ctx.Done():
		return nil, ctx.Err()
	}
}

func (l *zzListener) Close() error {
	if !l.closed {
		l.closed = true
		close(l.closedC)
	}
	return nil
}

type zzOpt func(*Config)

func (o zzOpt) TCPServerApply(c *Config) { o(c) }

func zzFrame(code codes.Code, token message.Token, payload []byte) []byte {
	m := pool.NewMessage(context.Background())
	m.SetCode(code)
	m.SetToken(token)
	if len(payload) > 0 {
		m.SetContentFormat(message.AppOctets)
		m.SetBody(bytes.NewReader(payload))
	}
	b, err := m.MarshalWithEncoder(coder.DefaultCoder)
	if err != nil {
		return nil
	}
	return append([]byte(nil), b...)
}

type zzReply struct {
	code    codes.Code
	token   []byte
	payload []byte
}

// splits what the server wrote to a peer into frames
func zzReplies(out []byte) ([]zzReply, bool) {
	var rs []zzReply
	for len(out) > 0 {
		var h coder.MessageHeader
		if _, err := coder.DefaultCoder.DecodeHeader(out, &h); err != nil || h.MessageLength == 0 || int(h.MessageLength) > len(out) {
			return rs, false
		}
		var m message.Message
		m.Options = make(message.Options, 0, 8)
		if _, err := coder.DefaultCoder.Decode(out[:h.MessageLength], &m); err != nil {
			return rs, false
		}
		rs = append(rs, zzReply{m.Code, append([]byte(nil), m.Token...), append([]byte(nil), m.Payload...)})
		out = out[h.MessageLength:]
	}
	return rs, true
}

func zzC10_tcp_server() {
	handled := 0
	srv := New(zzOpt(func(c *Config) {
		c.Ctx = context.Background()
		c.MaxMessageSize = 64
		c.Errors = func(error) {}
		c.PeriodicRunner = func(f func(now time.Time) bool) {}
		c.MessagePool = pool.New(0, 1024)
		n := 0
		c.GetToken = func() (message.Token, error) { n++; return message.Token{0xEE, byte(n)}, nil }
		c.BlockwiseEnable = false
		c.LimitClientParallelRequests = 4
		c.LimitClientEndpointParallelRequests = 4
		c.ReceivedMessageQueueSize = 2
		c.ConnectionCacheSize = 64
		c.DisableTCPSignalMessageCSM = true
		c.DisablePeerTCPSignalMessageCSMs = true
		c.CreateInactivityMonitor = nil
		c.Handler = func(w *responsewriter.ResponseWriter[*client.Conn], r *pool.Message) {
			handled++
			id := byte(0xFF)
			if p, ok := w.Conn().NetConn().(*zzPipe); ok {
				id = p.id
			}
			tag := byte(0)
			if b, err := r.ReadBody(); err == nil && len(b) == 1 {
				tag = b[0]
			}
			_ = w.SetResponse(codes.Content, message.AppOctets, bytes.NewReader([]byte{id, tag}))
		}
	}))
	l := &zzListener{conns: make(chan net.Conn, 4), errs: make(chan error, 2), closedC: make(chan struct{})}
	served := false
	go func() {
		_ = srv.Serve(l)
		served = true
	}()
	symSchedCanonical(symParam("canonical", 1) == 1)
	good, bad := zzNewPipe(1), zzNewPipe(2)
	l.conns <- net.Conn(good)
	attack := symChoose("attack", 9)
	when := symChoose("when", 3)
	t1, t2 := symU8("tag1"), symU8("tag2")
	misbehave := func() {
		if attack >= 7 {
			// a connection attempt that fails in the listener (handshake timeout, reset before accept)
			if attack == 7 {
				l.errs <- context.DeadlineExceeded
			} else {
				l.errs <- io.ErrUnexpectedEOF
			}
			symCover("failed-attempt")
			symIdle()
			return
		}
		l.conns <- net.Conn(bad)
		switch attack {
		case 0: // arbitrary bytes
			bad.in <- symBytes("garbage", symParam("garbage", 3))
			symCover("garbage")
		case 1: // a frame that declares more than the maximum message size
			bad.in <- []byte{0xD0, 200, byte(codes.GET)}
			symCover("oversize")
		case 2: // an unsolicited response
			bad.in <- zzFrame(codes.Content, message.Token{0xA1}, []byte{9})
			symCover("unsolicited-response")
		case 3: // connects and stalls
			symCover("stall")
		case 4: // half a request, then gone
			f := zzFrame(codes.GET, message.Token{0xA1}, []byte{9})
			bad.in <- f[:len(f)-1]
			close(bad.in)
			symCover("truncated-then-closed")
		case 5: // gone at once
			close(bad.in)
			symCover("closed-at-once")
		case 6: // a well-formed request with the other peer's token
			bad.in <- zzFrame(codes.GET, message.Token{0xA1}, []byte{9})
			symCover("same-token-request")
		}
		symIdle()
	}
	if when == 0 {
		misbehave()
	}
	good.in <- zzFrame(codes.GET, message.Token{0xA1}, []byte{t1})
	symIdle()
	if when == 1 {
		misbehave()
	}
	good.in <- zzFrame(codes.GET, message.Token{0xA2}, []byte{t2})
	symIdle()
	if when == 2 {
		misbehave()
	}
	rs, ok := zzReplies(good.out)
	symAssert(ok && len(rs) == 2, "the well-behaved peer receives exactly one reply per request, whatever another peer does")
	if ok && len(rs) == 2 {
		symAssert(rs[0].code == codes.Content && bytes.Equal(rs[0].token, []byte{0xA1}) && bytes.Equal(rs[0].payload, []byte{1, t1}), "first reply: own token, produced for its own connection and request")
		symAssert(rs[1].code == codes.Content && bytes.Equal(rs[1].token, []byte{0xA2}) && bytes.Equal(rs[1].payload, []byte{1, t2}), "second reply, in arrival order")
	}
	symAssert(!good.closed, "the well-behaved peer's connection stays open")
	if attack == 6 {
		br, bok := zzReplies(bad.out)
		symAssert(bok && len(br) == 1 && bytes.Equal(br[0].payload, []byte{2, 9}), "a request with the same token on another connection is answered on that connection")
	} else if attack != 2 {
		br, _ := zzReplies(bad.out)
		for _, r := range br {
			symAssert(len(r.payload) < 1 || r.payload[0] != 1, "nothing produced for the well-behaved peer goes to the other peer")
		}
	}
	// the server keeps accepting
	third := zzNewPipe(3)
	l.conns <- net.Conn(third)
	third.in <- zzFrame(codes.GET, message.Token{0xA1}, []byte{7})
	symIdle()
	r3, ok3 := zzReplies(third.out)
	symAssert(ok3 && len(r3) == 1 && bytes.Equal(r3[0].payload, []byte{3, 7}), "a peer that connects afterwards is served")
	symCover("third-served")
	// Stop ends Serve and closes every connection
	srv.Stop()
	symWaitUntil(func() bool { return served })
	symIdle()
	symAssert(good.closed && third.closed, "Stop closes the peers' sockets")
	if attack < 7 {
		symAssert(bad.closed, "and the misbehaving peer's socket")
	}
	srv.Stop()
	symCover("stopped")
}

// connection set-up must not hold up the accept loop: the server announces itself to every new connection (CSM; on
// a secure listener this first write also completes the handshake). A peer that connects and then does not read
// stalls only its own set-up - the next peer is accepted and served, Stop still ends Serve
func zzC10_tcp_server_setup_stall() {
	srv := New(zzOpt(func(c *Config) {
		c.Ctx = context.Background()
		c.MaxMessageSize = 64
		c.Errors = func(error) {}
		c.PeriodicRunner = func(f func(now time.Time) bool) {}
		c.MessagePool = pool.New(0, 1024)
		n := 0
		c.GetToken = func() (message.Token, error) { n++; return message.Token{0xEE, byte(n)}, nil }
		c.BlockwiseEnable = false
		c.LimitClientParallelRequests = 4
		c.LimitClientEndpointParallelRequests = 4
		c.ReceivedMessageQueueSize = 2
		c.ConnectionCacheSize = 64
		c.DisableTCPSignalMessageCSM = false
		c.DisablePeerTCPSignalMessageCSMs = true
		c.CreateInactivityMonitor = nil
		c.Handler = func(w *responsewriter.ResponseWriter[*client.Conn], r *pool.Message) {
			_ = w.SetResponse(codes.Content, message.AppOctets, bytes.NewReader([]byte{7}))
		}
	}))
	l := &zzListener{conns: make(chan net.Conn, 4), errs: make(chan error, 2), closedC: make(chan struct{})}
	served := false
	go func() {
		_ = srv.Serve(l)
		served = true
	}()
	symSchedCanonical(true)
	bad, good := zzNewPipe(2), zzNewPipe(1)
	bad.stalled = true
	l.conns <- net.Conn(bad)
	symIdle()
	l.conns <- net.Conn(good)
	good.in <- zzFrame(codes.GET, message.Token{0xA1}, []byte{1})
	symIdle()
	symCover("peer-behind-a-stalled-setup")
	rs, ok := zzReplies(good.out)
	answered := false
	for _, r := range rs {
		if r.code == codes.Content && bytes.Equal(r.token, []byte{0xA1}) {
			answered = true
		}
	}
	symAssert(ok && answered, "a peer that connects while another peer's connection set-up is stalled is accepted and served")
	srv.Stop()
	symWaitUntil(func() bool { return served })
	symIdle()
	symAssert(good.closed && bad.closed, "Stop closes every socket, also the one whose set-up never finished")
}

func zzC10_selftest() {
	srv := New(zzOpt(func(c *Config) {
		c.Ctx = context.Background()
		c.Errors = func(error) {}
		c.PeriodicRunner = func(f func(now time.Time) bool) {}
		c.MessagePool = pool.New(0, 1024)
		c.BlockwiseEnable = false
		c.DisableTCPSignalMessageCSM = true
		c.CreateInactivityMonitor = nil
	}))
	l := &zzListener{conns: make(chan net.Conn, 4), errs: make(chan error, 2), closedC: make(chan struct{})}
	served := false
	go func() {
		_ = srv.Serve(l)
		served = true
	}()
	p := zzNewPipe(1)
	l.conns <- net.Conn(p)
	p.in <- zzFrame(codes.GET, message.Token{0xA1}, nil)
	symIdle()
	rs, _ := zzReplies(p.out)
	symAssert(len(rs) == 0, "selftest: must fail (the default handler answers 4.04)")
	srv.Stop()
	symWaitUntil(func() bool { return served })
}

// C09, server side: Stop while a handler of one connection is blocked in a nested request on its connection and
// another connection is idle - once or from two goroutines at once: the nested request returns, every connection
// is closed with its on-close callbacks run exactly once, Serve returns, a further Stop is harmless.
func zzC09_tcp_server_stop() {
	nestedErr := error(nil)
	nestedDone := false
	onClose := [4]int{}
	// a third peer's connection may still be inside the server's new-connection callback when Stop is called
	slowSetup := symChoose("connection-being-set-up-during-stop", 2) == 1
	setupGate := make(chan struct{})
	srv := New(zzOpt(func(c *Config) {
		c.Ctx = context.Background()
		c.MaxMessageSize = 64
		c.Errors = func(error) {}
		c.PeriodicRunner = func(f func(now time.Time) bool) {}
		c.MessagePool = pool.New(0, 1024)
		n := 0
		c.GetToken = func() (message.Token, error) { n++; return message.Token{0xEE, byte(n)}, nil }
		c.BlockwiseEnable = false
		c.LimitClientParallelRequests = 4
		c.LimitClientEndpointParallelRequests = 4
		c.ReceivedMessageQueueSize = 2
		c.ConnectionCacheSize = 64
		c.DisableTCPSignalMessageCSM = true
		c.DisablePeerTCPSignalMessageCSMs = true
		c.CreateInactivityMonitor = nil
		c.OnNewConn = func(cc *client.Conn) {
			if p, ok := cc.NetConn().(*zzPipe); ok {
				id := p.id
				cc.AddOnClose(func() { onClose[id]++ })
				if id == 3 {
					<-setupGate // the application's callback takes its time
				}
			}
		}
		c.Handler = func(w *responsewriter.ResponseWriter[*client.Conn], r *pool.Message) {
			// the handler asks the peer something back and waits for the answer, which never comes
			req := pool.NewMessage(context.Background())
			req.SetCode(codes.GET)
			req.SetToken(message.Token{0xD0})
			_ = req.SetPath("/back")
			_, nestedErr = w.Conn().Do(req)
			nestedDone = true
		}
	}))
	l := &zzListener{conns: make(chan net.Conn, 4), errs: make(chan error, 2), closedC: make(chan struct{})}
	served := false
	go func() {
		_ = srv.Serve(l)
		served = true
	}()
	symSchedCanonical(symParam("canonical", 1) == 1)
	busy, idle := zzNewPipe(1), zzNewPipe(2)
	l.conns <- net.Conn(busy)
	l.conns <- net.Conn(idle)
	busy.in <- zzFrame(codes.GET, message.Token{0xA1}, nil)
	symIdle()
	symAssert(!nestedDone && len(busy.out) > 0, "the handler's nested request is on the stream and waits")
	late := zzNewPipe(3)
	if slowSetup {
		l.conns <- net.Conn(late)
		symIdle()
		symCover("connection-in-setup")
	}
	stoppers := 0
	if symChoose("concurrent-stop", 2) == 1 {
		for i := 0; i < 2; i++ {
			go func() {
				srv.Stop()
				stoppers++
			}()
		}
		symWaitUntil(func() bool { return stoppers == 2 })
		symCover("stopped-twice-concurrently")
	} else {
		srv.Stop()
	}
	if slowSetup {
		symIdle()
		close(setupGate) // the callback returns only after Stop has been called
	}
	symWaitUntil(func() bool { return served })
	symIdle()
	if slowSetup {
		symAssert(late.closed && onClose[3] == 1, "a connection that was still being set up when Stop was called is closed as well, its on-close callback run once")
	}
	symAssert(nestedDone && nestedErr != nil, "the request in flight inside the handler returns an error when the server stops")
	symAssert(busy.closed && idle.closed, "Stop closes every connection")
	symAssert(onClose[1] == 1 && onClose[2] == 1, "every connection's on-close callback ran exactly once")
	srv.Stop()
	symAssert(onClose[1] == 1 && onClose[2] == 1, "a further Stop runs nothing again")
	symCover("server-stopped")
}
