package options

import (
	"bytes"
	"context"
	"io"
	"net"
	"time"

	"github.com/plgd-dev/go-coap/v3/message"
	"github.com/plgd-dev/go-coap/v3/message/codes"
	"github.com/plgd-dev/go-coap/v3/message/pool"
	coapNet "github.com/plgd-dev/go-coap/v3/net"
	"github.com/plgd-dev/go-coap/v3/net/responsewriter"
	tcpClient "github.com/plgd-dev/go-coap/v3/tcp/client"
	"github.com/plgd-dev/go-coap/v3/tcp/coder"
	tcpServer "github.com/plgd-dev/go-coap/v3/tcp/server"
)

// C10 / C18 - keep-alive state is per connection. A stream server configured with WithKeepAlive creates one
// monitor per accepted connection through the factory this option installs. Two connections get their monitors
// from that factory; one peer never answers pings, the other is idle but answers every ping. Housekeeping ticks
// one period apart: the silent peer is closed after more than maxRetries unanswered pings, the healthy peer is
// pinged on every tick and never closed - whatever happens to the other connection.

type zzAddr struct{ id byte }

func (zzAddr) Network() string  { return "tcp" }
func (a zzAddr) String() string { return string([]byte{'m', 'e', 'm', '0' + a.id}) }

type zzPipe struct {
	id      byte
	in      chan []byte
	closedC chan struct{}
	closed  bool
	pending []byte
	out     []byte
	taken   int // bytes of out already inspected by the peer
}

func zzNewPipe(id byte) *zzPipe {
	return &zzPipe{id: id, in: make(chan []byte, 4), closedC: make(chan struct{})}
}

func (c *zzPipe) Read(b []byte) (int, error) {
	if len(c.pending) == 0 {
		select {
		case seg, ok := <-c.in:
			if !ok {
				return 0, io.EOF
			}
			c.pending = seg
		case <-c.closedC:
			return 0, net.ErrClosed
		}
	}
	n := copy(b, c.pending)
	c.pending = c.pending[n:]
	return n, nil
}

func (c *zzPipe) Write(b []byte) (int, error) {
	if c.closed {
		return 0, net.ErrClosed
	}
	c.out = append(c.out, b...)
	return len(b), nil
}

func (c *zzPipe) Close() error {
	if c.closed {
		return net.ErrClosed
	}
	c.closed = true
	close(c.closedC)
	return nil
}
func (c *zzPipe) LocalAddr() net.Addr                { return zzAddr{0} }
func (c *zzPipe) RemoteAddr() net.Addr               { return zzAddr{c.id} }
func (c *zzPipe) SetDeadline(t time.Time) error      { return nil }
func (c *zzPipe) SetReadDeadline(t time.Time) error  { return nil }
func (c *zzPipe) SetWriteDeadline(t time.Time) error { return nil }

// pings the connection wrote since the last call (tokens)
func (c *zzPipe) newPings() [][]byte {
	var toks [][]byte
	out := c.out[c.taken:]
	for len(out) > 0 {
		var h coder.MessageHeader
		if _, err := coder.DefaultCoder.DecodeHeader(out, &h); err != nil || h.MessageLength == 0 || int(h.MessageLength) > len(out) {
			break
		}
		var m message.Message
		m.Options = make(message.Options, 0, 4)
		if _, err := coder.DefaultCoder.Decode(out[:h.MessageLength], &m); err == nil && m.Code == codes.Ping {
			toks = append(toks, append([]byte(nil), m.Token...))
		}
		out = out[h.MessageLength:]
		c.taken += int(h.MessageLength)
	}
	return toks
}

func zzPong(tok []byte) []byte {
	m := pool.NewMessage(context.Background())
	m.SetCode(codes.Pong)
	m.SetToken(tok)
	b, err := m.MarshalWithEncoder(coder.DefaultCoder)
	if err != nil {
		return nil
	}
	return append([]byte(nil), b...)
}

func zzServerConn(p *zzPipe, mon tcpClient.InactivityMonitor) *tcpClient.Conn {
	cfg := tcpClient.Config{}
	cfg.Ctx = context.Background()
	cfg.MaxMessageSize = 1152
	cfg.MessagePool = pool.New(0, 1024)
	cfg.Errors = func(error) {}
	cfg.GetToken = func() (message.Token, error) { return message.Token{0xEE}, nil }
	cfg.Handler = func(w *responsewriter.ResponseWriter[*tcpClient.Conn], r *pool.Message) {}
	cfg.LimitClientParallelRequests = 4
	cfg.LimitClientEndpointParallelRequests = 4
	cfg.ReceivedMessageQueueSize = 2
	cfg.ConnectionCacheSize = 64
	cfg.DisableTCPSignalMessageCSM = true
	cfg.CloseSocket = true
	return tcpClient.NewConnWithOpts(coapNet.NewConn(p), &cfg, tcpClient.WithInactivityMonitor(mon))
}

func zzC10_keepalive_isolation() {
	symSchedCanonical(true)
	now := int64(1 << 41)
	symSetNow(time.Unix(0, now))
	maxRetries := uint32(1 + symChoose("maxRetries", 2))
	timeout := time.Duration(maxRetries+1) * time.Second // one period = 1 s
	closedBy := [3]int{}
	scfg := tcpServer.DefaultConfig
	WithKeepAlive(maxRetries, timeout, func(cc *tcpClient.Conn) {
		if p, ok := cc.NetConn().(*zzPipe); ok {
			closedBy[p.id]++
		}
		_ = cc.Close()
	}).TCPServerApply(&scfg)
	// the server calls the factory once per accepted connection
	pa, pb := zzNewPipe(1), zzNewPipe(2)
	ca := zzServerConn(pa, scfg.CreateInactivityMonitor())
	cb := zzServerConn(pb, scfg.CreateInactivityMonitor())
	go func() { _ = ca.Run() }()
	go func() { _ = cb.Run() }()
	symIdle()
	ticks := symParam("ticks", 4)
	pingsA, pingsB := 0, 0
	for k := 0; k < ticks; k++ {
		now += int64(time.Second) + 1
		symSetNow(time.Unix(0, now))
		// like pkg/connections.CheckExpirations: connections whose context is done are skipped
		tick := func(cc *tcpClient.Conn) {
			if cc.Context().Err() == nil {
				cc.CheckExpirations(time.Unix(0, now))
			}
		}
		if symChoose("first", 2) == 0 {
			tick(ca)
			tick(cb)
		} else {
			tick(cb)
			tick(ca)
		}
		symIdle()
		pingsA += len(pa.newPings()) // never answered
		for _, tok := range pb.newPings() {
			pingsB++
			if !pb.closed {
				pb.in <- zzPong(tok)
			}
		}
		symIdle()
		symAssert(!pb.closed && closedBy[2] == 0, "a peer that answers every ping is never closed, whatever another peer does")
		symAssert(pingsB == k+1, "the idle healthy peer is pinged at every tick after a silent period")
		if uint32(k+1) <= maxRetries {
			symAssert(!pa.closed, "the silent peer is not closed before more than maxRetries pings went unanswered")
		} else {
			symAssert(pa.closed && closedBy[1] == 1, "the silent peer is closed once more than maxRetries consecutive pings went unanswered")
		}
	}
	symCover("ticked")
	_ = bytes.Equal
	_ = ca.Close()
	_ = cb.Close()
	symIdle()
}

// C18 view of the same run: exactly the dead connection is closed
func zzC18_keepalive_isolation() { zzC10_keepalive_isolation() }

func zzC10_keepalive_selftest() {
	scfg := tcpServer.DefaultConfig
	WithKeepAlive(1, 2*time.Second, func(cc *tcpClient.Conn) { _ = cc.Close() }).TCPServerApply(&scfg)
	symAssert(scfg.CreateInactivityMonitor == nil, "selftest: must fail (the option installs a factory)")
}
