package options

import (
	"time"

	dtlsServer "github.com/plgd-dev/go-coap/v3/dtls/server"
	"github.com/plgd-dev/go-coap/v3/net/blockwise"
	tcpClient "github.com/plgd-dev/go-coap/v3/tcp/client"
	tcpServer "github.com/plgd-dev/go-coap/v3/tcp/server"
	udpClient "github.com/plgd-dev/go-coap/v3/udp/client"
	udpServer "github.com/plgd-dev/go-coap/v3/udp/server"
)

// Wiring of the options that carry the numeric parameters several properties quantify over (parallel-request limits:
// C16; NSTART / ACK timeout / retransmit count: C06; receive-queue size: C11; block-wise on/SZX/timeout: C04;
// maximum message size: C02/C07): applied to each transport's client and server configuration, the option sets
// exactly the field it names to exactly the given (symbolic) value and nothing else of that group.
func zzOptions_wiring() {
	total, perEP := symI64("total"), symI64("perEndpoint")
	symAssume(total != perEP)
	q := int(symI32("queue"))
	nstart, maxRetr := symU32("nstart"), symU32("maxRetransmit")
	ackNs := symI64("ackTimeout")
	szx := blockwise.SZX(symChoose("szx", 8))
	bwOn := symChoose("blockwise", 2) == 1
	bwNs := symI64("blockwiseTimeout")
	maxSize := symU32("maxMessageSize")
	type common struct {
		total, perEP int64
		queue        int
		bwOn         bool
		szx          blockwise.SZX
		bwT          time.Duration
		maxSize      uint32
	}
	want := common{total, perEP, q, bwOn, szx, time.Duration(bwNs), maxSize}
	switch symChoose("configuration", 5) {
	case 0:
		c := tcpClient.DefaultConfig
		WithLimitClientParallelRequest(total).TCPClientApply(&c)
		WithLimitClientEndpointParallelRequest(perEP).TCPClientApply(&c)
		WithReceivedMessageQueueSize(q).TCPClientApply(&c)
		WithBlockwise(bwOn, szx, time.Duration(bwNs)).TCPClientApply(&c)
		WithMaxMessageSize(maxSize).TCPClientApply(&c)
		got := common{c.LimitClientParallelRequests, c.LimitClientEndpointParallelRequests, c.ReceivedMessageQueueSize, c.BlockwiseEnable, c.BlockwiseSZX, c.BlockwiseTransferTimeout, c.MaxMessageSize}
		symAssert(got == want, "stream client: each option sets exactly the field it names")
		symCover("tcp-client")
	case 1:
		c := tcpServer.DefaultConfig
		WithLimitClientParallelRequest(total).TCPServerApply(&c)
		WithLimitClientEndpointParallelRequest(perEP).TCPServerApply(&c)
		WithReceivedMessageQueueSize(q).TCPServerApply(&c)
		WithBlockwise(bwOn, szx, time.Duration(bwNs)).TCPServerApply(&c)
		WithMaxMessageSize(maxSize).TCPServerApply(&c)
		got := common{c.LimitClientParallelRequests, c.LimitClientEndpointParallelRequests, c.ReceivedMessageQueueSize, c.BlockwiseEnable, c.BlockwiseSZX, c.BlockwiseTransferTimeout, c.MaxMessageSize}
		symAssert(got == want, "stream server: each option sets exactly the field it names")
		symCover("tcp-server")
	case 2:
		c := udpClient.DefaultConfig
		WithLimitClientParallelRequest(total).UDPClientApply(&c)
		WithLimitClientEndpointParallelRequest(perEP).UDPClientApply(&c)
		WithReceivedMessageQueueSize(q).UDPClientApply(&c)
		WithBlockwise(bwOn, szx, time.Duration(bwNs)).UDPClientApply(&c)
		WithMaxMessageSize(maxSize).UDPClientApply(&c)
		WithTransmission(nstart, time.Duration(ackNs), maxRetr).UDPClientApply(&c)
		got := common{c.LimitClientParallelRequests, c.LimitClientEndpointParallelRequests, c.ReceivedMessageQueueSize, c.BlockwiseEnable, c.BlockwiseSZX, c.BlockwiseTransferTimeout, c.MaxMessageSize}
		symAssert(got == want, "datagram client: each option sets exactly the field it names")
		symAssert(c.TransmissionNStart == nstart && c.TransmissionAcknowledgeTimeout == time.Duration(ackNs) && c.TransmissionMaxRetransmit == maxRetr, "datagram client: transmission parameters arrive in the fields they name")
		symCover("udp-client")
	case 3:
		c := udpServer.DefaultConfig
		WithLimitClientParallelRequest(total).UDPServerApply(&c)
		WithLimitClientEndpointParallelRequest(perEP).UDPServerApply(&c)
		WithReceivedMessageQueueSize(q).UDPServerApply(&c)
		WithBlockwise(bwOn, szx, time.Duration(bwNs)).UDPServerApply(&c)
		WithMaxMessageSize(maxSize).UDPServerApply(&c)
		WithTransmission(nstart, time.Duration(ackNs), maxRetr).UDPServerApply(&c)
		got := common{c.LimitClientParallelRequests, c.LimitClientEndpointParallelRequests, c.ReceivedMessageQueueSize, c.BlockwiseEnable, c.BlockwiseSZX, c.BlockwiseTransferTimeout, c.MaxMessageSize}
		symAssert(got == want, "datagram server: each option sets exactly the field it names")
		symAssert(c.TransmissionNStart == nstart && c.TransmissionAcknowledgeTimeout == time.Duration(ackNs) && c.TransmissionMaxRetransmit == maxRetr, "datagram server: transmission parameters arrive in the fields they name")
		symCover("udp-server")
	case 4:
		c := dtlsServer.DefaultConfig
		WithLimitClientParallelRequest(total).DTLSServerApply(&c)
		WithLimitClientEndpointParallelRequest(perEP).DTLSServerApply(&c)
		WithReceivedMessageQueueSize(q).DTLSServerApply(&c)
		WithBlockwise(bwOn, szx, time.Duration(bwNs)).DTLSServerApply(&c)
		WithMaxMessageSize(maxSize).DTLSServerApply(&c)
		WithTransmission(nstart, time.Duration(ackNs), maxRetr).DTLSServerApply(&c)
		got := common{c.LimitClientParallelRequests, c.LimitClientEndpointParallelRequests, c.ReceivedMessageQueueSize, c.BlockwiseEnable, c.BlockwiseSZX, c.BlockwiseTransferTimeout, c.MaxMessageSize}
		symAssert(got == want, "DTLS server: each option sets exactly the field it names")
		symAssert(c.TransmissionNStart == nstart && c.TransmissionAcknowledgeTimeout == time.Duration(ackNs) && c.TransmissionMaxRetransmit == maxRetr, "DTLS server: transmission parameters arrive in the fields they name")
		symCover("dtls-server")
	}
}

// the same decision registered under the properties whose parameters these are
func zzC16_options() { zzOptions_wiring() }
func zzC06_options() { zzOptions_wiring() }
func zzC11_options() { zzOptions_wiring() }
func zzC04_options() { zzOptions_wiring() }
