package coder

import (
	"bytes"
	"errors"

	"github.com/plgd-dev/go-coap/v3/message"
	"github.com/plgd-dev/go-coap/v3/message/codes"
)

// Independent copy of the option length registry (RFC 7252 §5.10, RFC 7641, RFC 7959, RFC 7967); options that are
// not in the registry may carry any length.
func zzPureLegalLen(id uint16, n int) bool {
	min, max := 0, 65804
	switch id {
	case 1:
		max = 8
	case 3:
		min, max = 1, 255
	case 4:
		min, max = 1, 8
	case 5:
		max = 0
	case 6:
		max = 3
	case 7:
		max = 2
	case 8, 11, 15, 20:
		max = 255
	case 12, 17:
		max = 2
	case 14, 28, 60:
		max = 4
	case 23, 27:
		max = 3
	case 35:
		min, max = 1, 1034
	case 39:
		min, max = 1, 255
	case 258:
		max = 1
	}
	return n >= min && n <= max
}

type zzMsg struct {
	m    message.Message
	ids  []uint16
	vals [][]byte
}

// zzBuild builds an arbitrary well-formed message within the harness parameters.
func zzBuild() zzMsg {
	k := symChoose("nopts", symParam("maxopts", 2)+1)
	tkl := symChoose("tkl", 9)
	if symParam("fewtokens", 0) == 1 {
		symAssume(tkl == 0 || tkl == 3 || tkl == 8)
	}
	var z zzMsg
	z.m.Token = symBytes("tok", tkl)
	z.m.Code = codes.Code(symU8("code"))
	typ := symU8("typ")
	symAssume(typ <= 3)
	z.m.Type = message.Type(typ)
	z.m.MessageID = int32(symU16("mid"))
	z.m.Options = make(message.Options, 0, k)
	prev := uint16(0)
	maxv := symParam("maxvaluelen", 14)
	for i := 0; i < k; i++ {
		id := symU16("id")
		symAssume(id >= prev && id != 0)
		n := symChoose("vlen", maxv+1)
		if symParam("bigvalues", 0) == 1 && n == maxv {
			n = []int{268, 269, 300}[symChoose("big", 3)]
		}
		symAssume(zzPureLegalLen(id, n))
		v := symBytes("val", n)
		z.m.Options = append(z.m.Options, message.Option{ID: message.OptionID(id), Value: v})
		z.ids = append(z.ids, id)
		z.vals = append(z.vals, v)
		prev = id
	}
	pl := symChoose("plen", symParam("maxpayload", 2)+1)
	if symParam("bigpayload", 0) == 1 && pl == symParam("maxpayload", 2) {
		pl = []int{255, 270}[symChoose("bigp", 2)]
	}
	z.m.Payload = symBytes("pay", pl)
	return z
}

func zzSameOptions(z *zzMsg, out message.Options) bool {
	if len(out) != len(z.ids) {
		return false
	}
	ok := true
	for i := range out {
		if uint16(out[i].ID) != z.ids[i] || !bytes.Equal(out[i].Value, z.vals[i]) {
			ok = false
		}
	}
	return ok
}

// whole-message round trip, Size/Encode agreement
func zzC01_udp_roundtrip() {
	z := zzBuild()
	c := DefaultCoder
	size, err := c.Size(z.m)
	symAssert(err == nil, "Size succeeds on a well-formed message")
	buf := make([]byte, size)
	n, err := c.Encode(z.m, buf)
	symAssert(err == nil, "Encode succeeds into a buffer of Size bytes")
	symAssert(n == size, "Encode writes exactly Size bytes")
	var out message.Message
	out.Options = make(message.Options, 0, len(z.ids)+1)
	used, err := c.Decode(buf, &out)
	symObserve("size", size)
	symObserve("buf", buf)
	symAssert(err == nil, "Decode accepts what Encode produced")
	symAssert(used == size, "Decode consumes exactly the bytes produced")
	symAssert(out.Type == z.m.Type && out.MessageID == z.m.MessageID && out.Code == z.m.Code, "type, message ID and code round-trip")
	symAssert(bytes.Equal(out.Token, z.m.Token), "token round-trips")
	symAssert(zzSameOptions(&z, out.Options), "options round-trip (numbers, order, values)")
	symAssert(bytes.Equal(out.Payload, z.m.Payload), "payload round-trips")
	symCover("roundtrip")
}

// too-small destination: same size reported, ErrTooSmall, nothing written beyond len(buf)
func zzC01_udp_short() {
	z := zzBuild()
	c := DefaultCoder
	size, err := c.Size(z.m)
	symAssert(err == nil, "Size succeeds on a well-formed message")
	b := symInt("buflen")
	symAssume(b >= 0 && b < size)
	backing := make([]byte, size+2)
	for i := range backing {
		backing[i] = 0xA5
	}
	n, err := c.Encode(z.m, backing[:b])
	symAssert(errors.Is(err, message.ErrTooSmall), "Encode into a too-small buffer fails with ErrTooSmall")
	symAssert(n == size, "Encode into a too-small buffer reports the needed size")
	clean := true
	for i := b; i < len(backing); i++ {
		if backing[i] != 0xA5 {
			clean = false
		}
	}
	symAssert(clean, "Encode does not touch memory beyond the buffer")
	symCover("short")
}

// refusals: oversized token, invalid type, invalid message ID
func zzC01_udp_refuse() {
	tkl := symChoose("tkl", 17)
	var m message.Message
	m.Token = symBytes("tok", tkl)
	m.Code = codes.Code(symU8("code"))
	m.Type = message.Type(symI16("typ"))
	m.MessageID = symI32("mid")
	valid := tkl <= 8 && m.Type >= 0 && m.Type <= 3 && m.MessageID >= 0 && m.MessageID <= 65535
	// known finding (pinned by udp/coder/coder_test.go, so not repairable without editing a test): types 4..255 pass
	// message.ValidateType and are shifted into the version bits
	symKnown("C01-type-4-255", m.Type >= 4 && m.Type <= 255)
	buf := make([]byte, 32)
	n, err := DefaultCoder.Encode(m, buf)
	symObserve("err", err != nil)
	if valid {
		symCover("valid")
		symAssert(err == nil && n == 4+tkl, "a valid header-only message encodes")
		var out message.Message
		used, derr := DefaultCoder.Decode(buf[:n], &out)
		symAssert(derr == nil && used == n, "and decodes")
		symAssert(out.Type == m.Type && out.MessageID == m.MessageID && out.Code == m.Code && bytes.Equal(out.Token, m.Token), "and round-trips")
	} else {
		symCover("invalid")
		symAssert(err != nil, "oversized token / invalid type / invalid message ID is refused, not truncated")
	}
	if tkl > 8 {
		_, serr := DefaultCoder.Size(m)
		symAssert(serr != nil, "Size refuses an oversized token")
	}
}

func zzC01_udp_selftest() {
	z := zzBuild()
	size, _ := DefaultCoder.Size(z.m)
	symAssert(size < 6, "selftest: must fail (messages can be longer)")
}
