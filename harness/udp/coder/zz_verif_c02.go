package coder

import (
	"bytes"
	"context"

	"github.com/plgd-dev/go-coap/v3/message"
	"github.com/plgd-dev/go-coap/v3/message/pool"
)

// C02 — reference parser written from RFC 7252 §3 / §3.1 only, extended by the library's documented leniencies:
// options with a registry-illegal length are dropped, option number 0 is dropped, a payload marker followed by
// nothing means "no payload".

type zzRefOpt struct {
	id         uint16
	start, end int
}

type zzRef struct {
	ok      bool
	typ     uint8
	code    uint8
	mid     uint16
	tkl     int
	opts    []zzRefOpt
	payload int // start of payload, len(data) if none
}

func zzRefExt(data []byte, pos int, nib int) (val int, npos int, ok bool) {
	switch nib {
	case 13:
		if pos+1 > len(data) {
			return 0, pos, false
		}
		return int(data[pos]) + 13, pos + 1, true
	case 14:
		if pos+2 > len(data) {
			return 0, pos, false
		}
		return (int(data[pos])<<8 | int(data[pos+1])) + 269, pos + 2, true
	}
	return nib, pos, true
}

func zzRefOptions(data []byte, pos int, r *zzRef) {
	prev := 0
	r.payload = len(data)
	for pos < len(data) {
		b := data[pos]
		if b == 0xff {
			r.payload = pos + 1
			r.ok = true
			return
		}
		d := int(b >> 4)
		l := int(b & 0x0f)
		if d == 15 || l == 15 {
			return
		}
		pos++
		var ok bool
		d, pos, ok = zzRefExt(data, pos, d)
		if !ok {
			return
		}
		l, pos, ok = zzRefExt(data, pos, l)
		if !ok {
			return
		}
		if pos+l > len(data) {
			return
		}
		l = symConcrete(l)
		id := prev + d
		if id > 65535 {
			return
		}
		if id != 0 && zzPureLegalLen(uint16(id), l) {
			r.opts = append(r.opts, zzRefOpt{uint16(id), pos, pos + l})
		}
		pos += l
		prev = id
	}
	r.ok = true
}

func zzRefParse(data []byte) zzRef {
	var r zzRef
	if len(data) < 4 {
		return r
	}
	if data[0]>>6 != 1 {
		return r
	}
	r.typ = (data[0] >> 4) & 3
	r.tkl = int(data[0] & 0x0f)
	if r.tkl > 8 {
		return r
	}
	r.code = data[1]
	r.mid = uint16(data[2])<<8 | uint16(data[3])
	if len(data) < 4+r.tkl {
		return r
	}
	r.tkl = symConcrete(r.tkl) // one path per token length (the decoder slices by it as well)
	zzRefOptions(data, 4+r.tkl, &r)
	return r
}

func zzAgree(data []byte, r *zzRef, out *message.Message) {
	symAssert(uint8(out.Type) == r.typ && uint16(out.MessageID) == r.mid && uint8(out.Code) == r.code && out.Code <= 255, "decoded type, message ID and code equal the reference")
	symAssert(bytes.Equal(out.Token, data[4:4+r.tkl]), "decoded token equals the reference")
	symAssert(len(out.Options) == len(r.opts), "decoded option count equals the reference (after documented drops)")
	if len(out.Options) == len(r.opts) {
		same := true
		for i := range r.opts {
			if uint16(out.Options[i].ID) != r.opts[i].id || !bytes.Equal(out.Options[i].Value, data[r.opts[i].start:r.opts[i].end]) {
				same = false
			}
		}
		symAssert(same, "decoded option numbers and values equal the reference")
	}
	symAssert(bytes.Equal(out.Payload, data[r.payload:]), "decoded payload equals the reference")
}

// totality + agreement with the reference + canonicalisation, datagram decoder
func zzC02_udp_decode() {
	n := symChoose("len", symParam("maxlen", 8)+1)
	data := symBytes("d", n)
	if symParam("fixhdr", 0) == 1 && n >= 4 {
		// concentrate the byte budget on the option area: version 1, token length <= 1
		symAssume(data[0]>>6 == 1 && data[0]&0x0f <= 1)
	}
	var out message.Message
	out.Options = make(message.Options, 0, n+1)
	used, err := DefaultCoder.Decode(data, &out)
	symObserve("accept", err == nil)
	symObserve("used", used)
	r := zzRefParse(data)
	if r.ok {
		symCover("accepted")
		symAssert(err == nil, "decoder accepts what the RFC 7252 reference parser accepts")
		symAssert(used == len(data), "decoder consumes the whole datagram")
		zzAgree(data, &r, &out)
		// canonicalisation: re-encode, decode again, same message
		size, serr := DefaultCoder.Size(out)
		symAssert(serr == nil, "accepted message can be re-encoded (Size)")
		buf := make([]byte, size)
		m, eerr := DefaultCoder.Encode(out, buf)
		symAssert(eerr == nil && m == size, "accepted message can be re-encoded (Encode)")
		var out2 message.Message
		out2.Options = make(message.Options, 0, n+1)
		used2, derr := DefaultCoder.Decode(buf[:m], &out2)
		symAssert(derr == nil && used2 == m, "canonical encoding decodes")
		r2 := r
		symAssert(out2.Type == out.Type && out2.MessageID == out.MessageID && out2.Code == out.Code && bytes.Equal(out2.Token, out.Token) && bytes.Equal(out2.Payload, out.Payload) && len(out2.Options) == len(out.Options), "decode(encode(decode(x))) == decode(x): header, token, payload, option count")
		_ = r2
		if len(out2.Options) == len(out.Options) {
			same := true
			for i := range out.Options {
				if out2.Options[i].ID != out.Options[i].ID || !bytes.Equal(out2.Options[i].Value, out.Options[i].Value) {
					same = false
				}
			}
			symAssert(same, "decode(encode(decode(x))) == decode(x): options")
		}
	} else {
		symCover("rejected")
		symAssert(err != nil, "decoder rejects what the RFC 7252 reference parser rejects")
	}
}

// pooled-message API: fresh, recycled-with-capacity-0 and grown messages; no aliasing of the receive buffer
func zzC02_udp_pool() {
	n := symChoose("len", symParam("maxlen", 7)+1)
	data := symBytes("d", n)
	if n >= 4 {
		symAssume(data[0]>>6 == 1 && data[0]&0x0f <= 1)
	}
	mode := symChoose("mode", 3)
	m := pool.NewMessage(context.Background())
	switch mode {
	case 1: // the public way to empty a message: option capacity 0 afterwards
		m.SetMessage(message.Message{})
	case 2: // option capacity 1: must grow for a second option
		m.SetMessage(message.Message{Options: make(message.Options, 0, 1)})
	}
	used, err := m.UnmarshalWithDecoder(DefaultCoder, data)
	symObserve("accept", err == nil)
	r := zzRefParse(data)
	symAssert((err == nil) == r.ok, "pooled decode accepts exactly what the reference accepts, whatever the recycled capacity")
	if err == nil && r.ok {
		symCover("accepted")
		symAssert(used == len(data), "pooled decode consumes the datagram")
		symAssert(len(m.Options()) == len(r.opts), "pooled decode: option count")
		tok := m.Token()
		symAssert(bytes.Equal(tok, data[4:4+r.tkl]), "pooled decode: token")
		// no aliasing: nothing reachable from the message shares memory with the caller's buffer
		alias := false
		for _, o := range m.Options() {
			if len(o.Value) > 0 && symSameObject(o.Value, data) {
				alias = true
			}
		}
		var msg message.Message
		msg.Options = make(message.Options, 0, n+1)
		// overwrite the receive buffer and look at the message again (native replay observes real aliasing)
		before := make([][]byte, 0, len(m.Options()))
		for _, o := range m.Options() {
			before = append(before, append([]byte(nil), o.Value...))
		}
		for i := range data {
			data[i] ^= 0x5a
		}
		changed := false
		for i, o := range m.Options() {
			if !bytes.Equal(o.Value, before[i]) {
				changed = true
			}
		}
		symAssert(!alias && !changed, "decoded message does not alias the caller's receive buffer")
	}
}

func zzC02_udp_selftest() {
	data := symBytes("d", 5)
	var out message.Message
	out.Options = make(message.Options, 0, 4)
	_, err := DefaultCoder.Decode(data, &out)
	symAssert(err != nil, "selftest: must fail (some 5-byte datagrams are valid)")
}
