package client

import (
	"time"

	"github.com/plgd-dev/go-coap/v3/message"
	"github.com/plgd-dev/go-coap/v3/message/codes"
	"github.com/plgd-dev/go-coap/v3/message/pool"
	"github.com/plgd-dev/go-coap/v3/net/responsewriter"
)

// C10, datagram side, one logical connection: arbitrary datagrams (every byte symbolic) arrive through
// Conn.Process while a request of the application is outstanding. Nothing panics or stalls, the outstanding
// request is completed only by a response that carries its token, and a well-formed request that arrives
// afterwards is still served.
func zzC10_udp_datagrams() {
	s := zzNewSession()
	served := 0
	cc := zzNewConn(s, zzConnCfg{midSeed: 1000, nstart: 2, maxRetrans: 4, ackTimeout: 1 << 30, handler: func(w *responsewriter.ResponseWriter[*Conn], r *pool.Message) {
		served++
		_ = w.SetResponse(codes.Content, message.TextPlain, bytesReader([]byte{0x42}))
	}})
	symSetNow(time.Unix(0, 1<<41))
	a := &zzCall{token: message.Token{0xA1, 0xA2}}
	go zzDo(cc, a)
	zzWaitWritten(s, 1)
	symIdle()
	k := symParam("datagrams", 1)
	for i := 0; i < k; i++ {
		d := symBytes("datagram", symParam("len", 6))
		// token bytes are drawn from {byte of the outstanding token, 0x5A}: the token hash (CRC-64) is evaluated on
		// concrete bytes; everything else - version, type, TKL, code, message ID, options, payload - is arbitrary
		tkl := symConcrete(int(d[0] & 0x0F))
		for j := 0; j < tkl && 4+j < len(d); j++ {
			own := byte(0xA1)
			if j%2 == 1 {
				own = 0xA2
			}
			if symChoose("token-byte", 2) == 0 {
				symAssume(d[4+j] == own)
				d[4+j] = own
			} else {
				symAssume(d[4+j] == 0x5A)
				d[4+j] = 0x5A
			}
		}
		_ = cc.Process(nil, d)
		symIdle()
	}
	if a.done {
		symCover("completed-by-datagram")
		if a.err == nil {
			symAssert(len(a.tok) == 2 && a.tok[0] == 0xA1 && a.tok[1] == 0xA2, "an outstanding request is only completed by a message carrying its token")
		}
	}
	symAssert(s.ctx.Err() == nil, "arbitrary datagrams do not close the connection")
	before := len(s.written)
	_ = cc.Process(nil, zzDatagram(message.Confirmable, 30000, codes.GET, message.Token{0x77}, nil))
	symIdle()
	found := false
	for _, w := range s.written[before:] {
		if len(w.token) == 1 && w.token[0] == 0x77 && w.code == codes.Content {
			found = true
		}
	}
	symAssert(found, "a well-formed request that arrives after arbitrary datagrams is served")
	symCover("served-afterwards")
	if !a.done {
		zzAnswer(cc, s.written[0], 1, 0, 1)
		symWaitUntil(func() bool { return a.done })
		symAssert(a.err == nil, "and the outstanding request still completes when its response arrives")
		symCover("completed-afterwards")
	}
}
