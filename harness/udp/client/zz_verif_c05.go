package client

import (
	"bytes"
	"time"

	"github.com/plgd-dev/go-coap/v3/message"
	"github.com/plgd-dev/go-coap/v3/message/codes"
	"github.com/plgd-dev/go-coap/v3/message/pool"
	"github.com/plgd-dev/go-coap/v3/net/responsewriter"
)

const zzLifetime = int64(247 * time.Second)

// C05 — a request that arrives again with the same message ID within the exchange lifetime is not handed to the
// handler again; the duplicate gets the same reply, matched to its message ID; after the lifetime the ID is fresh.
func zzC05_duplicate() {
	s := zzNewSession()
	calls := 0
	behaviour := symChoose("handler", 2) // 0: piggybacked response, 1: no response
	respCode := symU8("respcode")
	symAssume(respCode >= 0x41 && respCode <= 0xa5) // a response code (2.01 .. 5.05)
	respPayload := symBytes("resppayload", 2)
	cc := zzNewConn(s, zzConnCfg{midSeed: 1000, handler: func(w *responsewriter.ResponseWriter[*Conn], r *pool.Message) {
		calls++
		if behaviour == 0 {
			_ = w.SetResponse(codes.Code(respCode), message.AppOctets, bytesReader(respPayload))
		}
	}})
	con := symChoose("type", 2) == 0
	typ := message.NonConfirmable
	if con {
		typ = message.Confirmable
	}
	// message IDs: an ordinary one, and the one the connection itself will use for its next outgoing message
	own := int32(uint16(cc.msgID.Load() + 1))
	mid := []int32{7, own, 65535, 0}[symChoose("mid", 4)] // every 16-bit value is a message ID, 0 included
	token := message.Token{0xA1, 0xA2}
	t1 := symI64("t1")
	t2 := symI64("t2")
	symAssume(t1 > 1<<40 && t1 <= t2 && t2 < 1<<59)
	symSetNow(time.Unix(0, t1))
	cc.ProcessReceivedMessage(zzRequest(typ, mid, codes.GET, token, nil))
	symAssert(calls == 1, "the first copy is handed to the handler")
	first := len(s.written)
	replied := behaviour == 0
	if con {
		symAssert(first == 1, "a confirmable request is answered with exactly one datagram (response or bare acknowledgement)")
	} else if !replied {
		symAssert(first == 0, "a non-confirmable request without response produces no datagram")
	}
	symKnown("C05-non-reply-cached-under-own-mid", !con && replied)
	if symParam("tick", 0) == 1 && symChoose("tick", 2) == 1 {
		symSetNow(time.Unix(0, t2))
		cc.CheckExpirations(time.Unix(0, t2))
	}
	symSetNow(time.Unix(0, t2))
	// the second copy normally has the type of the first; a peer that repeats a message ID with the other type is
	// answered according to the copy that is being answered (acknowledgement for a confirmable copy, its message ID)
	typ2 := typ
	if !con && replied && symChoose("second-copy-type", 2) == 1 {
		typ2 = message.Confirmable
		symCover("retyped-copy")
	}
	cc.ProcessReceivedMessage(zzRequest(typ2, mid, codes.GET, token, nil))
	symObserve("calls", calls)
	symObserve("written", len(s.written))
	if t2-t1 <= zzLifetime {
		symCover("within-lifetime")
		if con || replied {
			symAssert(calls == 1, "a duplicate within the exchange lifetime is not handed to the handler again")
			symAssert(len(s.written) == 2*first, "the duplicate is answered again")
			if first == 1 && len(s.written) == 2 {
				a, b := s.written[0], s.written[1]
				symAssert(b.code == a.code && bytes.Equal(b.token, a.token) && bytes.Equal(b.payload, a.payload) && b.nopts == a.nopts && b.cf == a.cf, "the duplicate's reply has the same code, token, options and payload as the first reply")
				symAssert(b.mid == mid, "the duplicate's reply is matched to the duplicate's message ID")
				if con {
					symAssert(b.typ == message.Acknowledgement && a.typ == message.Acknowledgement, "replies to confirmable copies are acknowledgements")
				}
				if typ2 == message.Confirmable {
					symAssert(b.typ == message.Acknowledgement, "replies to confirmable copies are acknowledgements")
				}
			}
		}
	} else {
		symCover("after-lifetime")
		symAssert(calls == 2, "once the exchange lifetime has elapsed the message ID is treated as fresh again")
	}
}

// three arrivals of one message ID at symbolic times, housekeeping ticks in between: the lifetime runs from the
// arrival that was handled as fresh - duplicates served from the reply cache do not prolong it - and once it has
// elapsed a tick leaves nothing cached
func zzC05_lifetime() {
	s := zzNewSession()
	calls := 0
	cc := zzNewConn(s, zzConnCfg{midSeed: 1000, handler: func(w *responsewriter.ResponseWriter[*Conn], r *pool.Message) {
		calls++
		_ = w.SetResponse(codes.Content, message.AppOctets, bytesReader([]byte{byte(calls)}))
	}})
	t1, t2, t3 := symI64("t1"), symI64("t2"), symI64("t3")
	symAssume(t1 > 1<<40 && t1 <= t2 && t2 <= t3 && t3 < 1<<59)
	tick := symChoose("tick-before-each-arrival", 2) == 1
	arrive := func(t int64) {
		symSetNow(time.Unix(0, t))
		if tick {
			cc.CheckExpirations(time.Unix(0, t))
		}
		cc.ProcessReceivedMessage(zzRequest(message.Confirmable, 7, codes.GET, message.Token{0xA1}, nil))
	}
	arrive(t1)
	fresh, want := t1, 1
	arrive(t2)
	if t2-fresh > zzLifetime {
		fresh = t2
		want++
	}
	symAssert(calls == want, "the second arrival is handed to the handler exactly when the lifetime of the first has elapsed")
	arrive(t3)
	if t3-fresh > zzLifetime {
		fresh = t3
		want++
		symCover("fresh-again")
	} else {
		symCover("duplicate")
	}
	symAssert(calls == want, "a duplicate served from the reply cache does not prolong the lifetime: the ID is fresh again one lifetime after the arrival that was handled")
	// housekeeping one lifetime after the last handled arrival: nothing cached any more
	t4 := symI64("t4")
	symAssume(t4 >= t3 && t4 < 1<<60 && t4-fresh > zzLifetime)
	symSetNow(time.Unix(0, t4))
	cc.CheckExpirations(time.Unix(0, t4))
	if mc, ok := cc.responseMsgCache.(*messageCache); ok {
		symAssert(mc.c.Length() == 0, "cached replies disappear one exchange lifetime after the exchange, however often duplicates were served")
	}
	symAssert(len(cc.msgIDMutex.ma) == 0, "no per-ID lock is retained")
}

// C13 view of the same history
func zzC13_reply_cache() { zzC05_lifetime() }

// a later request whose message ID equals an ID the endpoint used for its own outgoing reply is a fresh request
func zzC05_ownid() {
	s := zzNewSession()
	calls := 0
	cc := zzNewConn(s, zzConnCfg{midSeed: 1000, handler: func(w *responsewriter.ResponseWriter[*Conn], r *pool.Message) {
		calls++
		_ = w.SetResponse(codes.Content, message.AppOctets, bytesReader([]byte{byte(calls)}))
	}})
	symSetNow(time.Unix(0, 1<<41))
	cc.ProcessReceivedMessage(zzRequest(message.NonConfirmable, 7, codes.GET, message.Token{0xA1}, nil))
	symAssert(calls == 1 && len(s.written) == 1, "first request handled and answered")
	used := s.written[0].mid // the endpoint's own outgoing ID
	typ := message.NonConfirmable
	if symChoose("type", 2) == 0 {
		typ = message.Confirmable
	}
	cc.ProcessReceivedMessage(zzRequest(typ, used, codes.GET, message.Token{0xB1}, nil))
	symCover("second")
	symAssert(calls == 2, "a request whose message ID equals one of the endpoint's own outgoing IDs is handled, not answered from the reply cache")
	if len(s.written) == 2 {
		symAssert(bytes.Equal(s.written[1].token, []byte{0xB1}), "and its reply carries its own token")
	}
}

// other exchanges happen between the two copies (the pool recycles the reply message in between): the duplicate
// still gets the reply of its own exchange
func zzPooledRequest(cc *Conn, typ message.Type, mid int32, token message.Token) *pool.Message {
	m := cc.AcquireMessage(cc.Context()) // like Conn.Process: received messages come from the pool
	m.SetType(typ)
	m.SetMessageID(mid)
	m.SetCode(codes.GET)
	m.SetToken(token)
	return m
}

func zzC05_interleaved() {
	s := zzNewSession()
	calls := 0
	cc := zzNewConn(s, zzConnCfg{midSeed: 1000, poolSize: 1024, handler: func(w *responsewriter.ResponseWriter[*Conn], r *pool.Message) {
		calls++
		_ = w.SetResponse(codes.Content, message.AppOctets, bytesReader([]byte{byte(calls), r.Token()[0]}))
	}})
	symSetNow(time.Unix(0, 1<<41))
	con := symChoose("type", 2) == 0
	typ := message.NonConfirmable
	if con {
		typ = message.Confirmable
	}
	cc.ProcessReceivedMessage(zzPooledRequest(cc, typ, 7, message.Token{0xA1, 0xA2}))
	symAssert(calls == 1 && len(s.written) == 1, "first request handled and answered")
	others := 1 + symChoose("others", symParam("others", 2))
	for i := 0; i < others; i++ {
		cc.ProcessReceivedMessage(zzPooledRequest(cc, typ, int32(20+i), message.Token{byte(0xB0 + i)}))
	}
	symAssert(calls == 1+others, "the other requests are handled")
	cc.ProcessReceivedMessage(zzPooledRequest(cc, typ, 7, message.Token{0xA1, 0xA2}))
	symCover("replayed")
	symAssert(calls == 1+others, "the duplicate is not handed to the handler")
	if len(s.written) == 2+others {
		a, b := s.written[0], s.written[len(s.written)-1]
		symAssert(b.code == a.code && bytes.Equal(b.token, a.token) && bytes.Equal(b.payload, a.payload) && b.cf == a.cf, "the duplicate's reply is the first reply of its own exchange, whatever happened in between")
	} else {
		symAssert(false, "the duplicate is answered")
	}
}

// C05-B — the two copies are processed concurrently (2 goroutines): the handler still runs at most once
func zzC05_concurrent() {
	s := zzNewSession()
	calls := 0
	cc := zzNewConn(s, zzConnCfg{midSeed: 1000, handler: func(w *responsewriter.ResponseWriter[*Conn], r *pool.Message) {
		calls++
		symYield() // the application handler may take its time
		if symParam("respond", 1) == 1 {
			_ = w.SetResponse(codes.Content, message.AppOctets, bytesReader([]byte{7}))
		}
	}})
	symSetNow(time.Unix(0, 1<<41))
	typ := message.Confirmable
	if symChoose("type", 2) == 1 {
		typ = message.NonConfirmable
	}
	done := 0
	for i := 0; i < 2; i++ {
		go func() {
			cc.ProcessReceivedMessage(zzRequest(typ, 7, codes.GET, message.Token{0xA1}, nil))
			done++
		}()
	}
	symWaitUntil(func() bool { return done == 2 })
	symCover("both-processed")
	symAssert(calls == 1, "copies processed concurrently are handed to the handler once")
	symAssert(len(s.written) == 2, "and both copies are answered")
	if len(s.written) == 2 {
		symAssert(s.written[0].code == s.written[1].code, "with the same reply")
		if typ == message.Confirmable {
			symAssert(s.written[0].mid == 7 && s.written[1].mid == 7, "acknowledgements carry the request's message ID")
		} else {
			symAssert(s.written[0].mid == 7 || s.written[1].mid == 7, "the duplicate's reply is matched to the duplicate's message ID")
		}
	}
	symAssert(len(cc.msgIDMutex.ma) == 0, "the per-ID lock is given back")
}

// C11 view: a message accepted twice from the network (a retransmission) while the first copy is still being
// handled is not processed twice
func zzC11_duplicate_concurrent() { zzC05_concurrent() }

func zzC05_selftest() {
	s := zzNewSession()
	calls := 0
	cc := zzNewConn(s, zzConnCfg{midSeed: 1000, handler: func(w *responsewriter.ResponseWriter[*Conn], r *pool.Message) { calls++ }})
	symSetNow(time.Unix(0, 1<<41))
	cc.ProcessReceivedMessage(zzRequest(message.Confirmable, 7, codes.GET, message.Token{1}, nil))
	cc.ProcessReceivedMessage(zzRequest(message.Confirmable, 8, codes.GET, message.Token{1}, nil))
	symAssert(calls == 1, "selftest: must fail (different message IDs are different requests)")
}
