package client

import (
	"errors"
	"github.com/plgd-dev/go-coap/v3/udp/coder"
	"context"
	"bytes"
	"time"

	"github.com/plgd-dev/go-coap/v3/message"
	"github.com/plgd-dev/go-coap/v3/message/codes"
	"github.com/plgd-dev/go-coap/v3/message/pool"
	"github.com/plgd-dev/go-coap/v3/net/responsewriter"
)

// C12 — ownership of pooled messages, decided with ghost state: a message is "released" from the moment
// (*Pool).ReleaseMessage returns until (*Pool).AcquireMessage hands it out again; releasing it twice, or calling any
// of its methods in between from outside the pool, is a violation. The pool really recycles (size 1024).

// a response returned from a request call stays valid and unchanged while the connection keeps working
func zzC12_response() {
	symGhost(true)
	s := zzNewSession()
	cc := zzNewConn(s, zzConnCfg{midSeed: 1000, nstart: 2, maxRetrans: 2, ackTimeout: 1 << 30, poolSize: 1024})
	now := int64(1 << 41)
	symSetNow(time.Unix(0, now))
	a := &zzCall{token: message.Token{0xA1, 0xA2}}
	tag := symU8("tag")
	go zzDo(cc, a)
	zzWaitWritten(s, 1)
	zzAnswer(cc, s.written[0], tag, symChoose("style", 2), 1+symChoose("dup", 2))
	symWaitUntil(func() bool { return a.done })
	symAssert(a.err == nil && a.resp != nil, "answered request succeeds")
	if a.resp == nil {
		return
	}
	// more traffic on the connection while the application still holds the response
	b := &zzCall{token: message.Token{0xB1}}
	go zzDo(cc, b)
	zzWaitWritten(s, 2)
	zzAnswer(cc, s.written[1], tag+1, 0, 1)
	symWaitUntil(func() bool { return b.done })
	cc.ProcessReceivedMessage(zzRequest(message.Confirmable, 77, codes.GET, message.Token{0x77}, nil))
	now += int64(300 * time.Second)
	symSetNow(time.Unix(0, now))
	cc.CheckExpirations(time.Unix(0, now))
	symCover("held")
	symAssert(!symReleased(a.resp), "a response the application holds is not recycled")
	body, _ := a.resp.ReadBody()
	symAssert(bytes.Equal(a.resp.Token(), []byte{0xA1, 0xA2}) && len(body) == 1 && body[0] == tag, "its content is unchanged")
	cc.ReleaseMessage(a.resp)
	if b.resp != nil {
		cc.ReleaseMessage(b.resp)
	}
}

// a request inside a handler stays valid until the handler returns; hijacked requests stay valid afterwards
func zzC12_handler() {
	symGhost(true)
	s := zzNewSession()
	hijack := symChoose("hijack", 2) == 1
	respond := symChoose("respond", 2) == 1
	var kept *pool.Message
	var keptBody []byte
	cc := zzNewConn(s, zzConnCfg{midSeed: 1000, poolSize: 1024, handler: func(w *responsewriter.ResponseWriter[*Conn], r *pool.Message) {
		symAssert(!symReleased(r), "the request is owned by the handler while it runs")
		if hijack && kept == nil {
			r.Hijack()
			kept = r
			keptBody, _ = r.ReadBody()
		}
		if respond {
			_ = w.SetResponse(codes.Content, message.TextPlain, bytesReader([]byte{1, 2}))
		}
	}})
	symSetNow(time.Unix(0, 1<<41))
	payload := symBytes("payload", 2)
	req := cc.AcquireMessage(cc.Context())
	req.SetType(message.Confirmable)
	req.SetMessageID(7)
	req.SetCode(codes.POST)
	req.SetToken(message.Token{0xA1})
	req.SetContentFormat(message.AppOctets)
	req.SetBody(bytesReader(payload))
	cc.ProcessReceivedMessage(req)
	// another exchange re-uses whatever went back to the pool
	cc.ProcessReceivedMessage(zzRequest(message.Confirmable, 8, codes.GET, message.Token{0xB1}, nil))
	if hijack {
		symCover("hijacked")
		symAssert(!symReleased(kept), "a hijacked request is not recycled by the library")
		b, _ := kept.ReadBody()
		symAssert(bytes.Equal(b, keptBody) && bytes.Equal(kept.Token(), []byte{0xA1}), "and keeps its content")
		cc.ReleaseMessage(kept)
	} else {
		symCover("not-hijacked")
		symAssert(symReleased(req), "a request that was not hijacked goes back to the pool after handling")
	}
}

// retransmission sweep racing with the acknowledgement (2 threads): the copy being transmitted is never a message
// that the acknowledgement path has released
func zzC12_retransmit_ack() {
	symGhost(true)
	s := zzNewSession()
	cc := zzNewConn(s, zzConnCfg{midSeed: 1000, nstart: 2, maxRetrans: 4, ackTimeout: 1000, poolSize: 1024})
	now := int64(1 << 41)
	symSetNow(time.Unix(0, now))
	req := zzRequest(message.Confirmable, -1, codes.GET, message.Token{0xA1}, []byte{9})
	req.UpsertMessageID(cc.GetMessageID())
	mid := req.MessageID()
	closeFn, err := cc.prepareWriteMessage(req, func(*responsewriter.ResponseWriter[*Conn], *pool.Message) {})
	symAssert(err == nil, "registered")
	_ = cc.session.WriteMessage(req)
	s.yield = true
	later := now + 5000
	symSetNow(time.Unix(0, later))
	done := false
	go func() {
		cc.CheckExpirations(time.Unix(0, later))
		done = true
	}()
	_ = cc.handleSpecialMessages(zzAck(message.Acknowledgement, mid))
	closeFn()
	// an unrelated request grabs a recycled message meanwhile
	other := cc.AcquireMessage(cc.Context())
	other.SetMessageID(12345)
	symWaitUntil(func() bool { return done })
	symCover("raced")
	for _, w := range s.written {
		symAssert(w.mid == mid, "every transmitted copy is the registered request, not a recycled message")
	}
	cc.ReleaseMessage(other)
}

// the application releases the response the moment Do returns, while the receive path that delivered it is still
// finishing: the message goes back to the pool exactly once
func zzC12_release_race() {
	symGhost(true)
	s := zzNewSession()
	cc := zzNewConn(s, zzConnCfg{midSeed: 1000, nstart: 2, maxRetrans: 2, ackTimeout: 1 << 30, poolSize: 1024})
	symSetNow(time.Unix(0, 1<<41))
	done := false
	var err error
	go func() {
		req := pool.NewMessage(context.Background())
		req.SetCode(codes.GET)
		req.SetToken(message.Token{0xA1})
		_ = req.SetPath("/a")
		var resp *pool.Message
		resp, err = cc.Do(req)
		if err == nil {
			cc.ReleaseMessage(resp)
		}
		done = true
	}()
	zzWaitWritten(s, 1)
	zzAnswer(cc, s.written[0], 1, symChoose("style", 2), 1)
	symWaitUntil(func() bool { return done })
	symIdle()
	symAssert(err == nil, "answered request succeeds")
	x, y := cc.AcquireMessage(cc.Context()), cc.AcquireMessage(cc.Context())
	symAssert(x != y, "the pool never hands one message to two owners")
	symCover("raced")
}

// a notification inside an observation callback is the application's until the callback returns: not recycled,
// content unchanged while other traffic is processed; afterwards the library takes it back exactly once
func zzC12_notification() {
	symGhost(true)
	s := zzNewSession()
	cc := zzNewConn(s, zzConnCfg{midSeed: 1000, nstart: 2, maxRetrans: 2, ackTimeout: 1 << 30, poolSize: 1024})
	symSetNow(time.Unix(0, 1<<41))
	tokO := message.Token{0x0B, 0x5E}
	tag := symU8("tag")
	var seen []*pool.Message
	inCallback := 0
	odone := false
	go func() {
		req := pool.NewMessage(context.Background())
		req.SetCode(codes.GET)
		req.SetToken(tokO)
		_ = req.SetPath("/obs")
		req.SetObserve(0)
		_, _ = cc.DoObserve(req, func(n *pool.Message) {
			inCallback++
			symAssert(!symReleased(n), "a notification is owned by the callback while it runs")
			b, _ := n.ReadBody()
			// other traffic is handled while the callback still holds the notification
			other := cc.AcquireMessage(cc.Context())
			other.SetCode(codes.NotFound)
			other.SetToken(message.Token{0xEE})
			cc.ReleaseMessage(other)
			b2, _ := n.ReadBody()
			symAssert(!symReleased(n) && bytes.Equal(b, b2) && bytes.Equal(n.Token(), tokO), "and its content stays unchanged until the callback returns")
			seen = append(seen, n)
		})
		odone = true
	}()
	zzWaitWritten(s, 1)
	reg := zzRequest(message.Acknowledgement, s.written[0].mid, codes.Content, tokO, []byte{tag})
	reg.SetObserve(5)
	d, _ := reg.MarshalWithEncoder(coder.DefaultCoder)
	_ = cc.Process(nil, append([]byte(nil), d...))
	symWaitUntil(func() bool { return odone })
	// the next notification is fresh, a copy of the first one, or an older one that was overtaken (the last two are
	// dropped by the observation without reaching the callback: the library still gives them back exactly once)
	seq2 := []uint32{6, 5, 3}[symChoose("second-notification", 3)]
	n2 := zzRequest(message.NonConfirmable, 30001, codes.Content, tokO, []byte{tag + 1})
	n2.SetObserve(seq2)
	d2, _ := n2.MarshalWithEncoder(coder.DefaultCoder)
	_ = cc.Process(nil, append([]byte(nil), d2...))
	symIdle()
	if seq2 == 6 {
		symAssert(inCallback == 2 && len(seen) == 2, "both notifications reach the callback")
		symCover("notified")
	} else {
		symAssert(inCallback == 1 && len(seen) == 1, "a repeated or overtaken notification does not reach the callback")
		symCover("dropped-notification")
	}
	for _, n := range seen {
		symAssert(symReleased(n), "after the callback returned the library has taken the notification back")
	}
	// whatever is acquired next is owned exclusively
	x, y := cc.AcquireMessage(cc.Context()), cc.AcquireMessage(cc.Context())
	symAssert(x != y, "the pool never hands one message to two owners")
}

// a body whose size can be determined but whose content cannot be read
type zzFailingBody struct{ size, pos int64 }

func (b *zzFailingBody) Seek(offset int64, whence int) (int64, error) {
	switch whence {
	case 0:
		b.pos = offset
	case 1:
		b.pos += offset
	case 2:
		b.pos = b.size + offset
	}
	return b.pos, nil
}
func (b *zzFailingBody) Read(p []byte) (int, error) { return 0, zzErrRead }

var zzErrRead = errors.New("read fails")

// error paths of the write path that give the retransmission copy back early: a confirmable request whose body
// cannot be read (the copy cannot be made), and one refused for a message-ID collision - each pooled message goes
// back exactly once
func zzC12_write_errors() {
	symGhost(true)
	s := zzNewSession()
	cc := zzNewConn(s, zzConnCfg{midSeed: 1000, nstart: 2, maxRetrans: 2, ackTimeout: 1 << 30, poolSize: 1024})
	symSetNow(time.Unix(0, 1<<41))
	var err error
	switch symChoose("failure", 2) {
	case 0:
		req := cc.AcquireMessage(context.Background())
		req.SetCode(codes.POST)
		req.SetType(message.Confirmable)
		req.SetToken(message.Token{0xA1})
		_ = req.SetPath("/a")
		req.SetBody(&zzFailingBody{size: 5})
		if symChoose("one-way", 2) == 1 {
			err = cc.WriteMessage(req)
		} else {
			_, err = cc.Do(req)
		}
		cc.ReleaseMessage(req)
		symCover("unreadable-body")
	case 1:
		a := &zzCall{token: message.Token{0xB1}}
		go zzDo(cc, a)
		zzWaitWritten(s, 1)
		symIdle()
		req := cc.AcquireMessage(context.Background())
		req.SetCode(codes.GET)
		req.SetType(message.Confirmable)
		req.SetToken(message.Token{0xB2})
		req.SetMessageID(s.written[0].mid)
		_ = req.SetPath("/b")
		err = cc.WriteMessage(req)
		cc.ReleaseMessage(req)
		zzAnswer(cc, s.written[0], 1, 0, 1)
		symWaitUntil(func() bool { return a.done })
		if a.resp != nil {
			cc.ReleaseMessage(a.resp)
		}
		symCover("message-id-collision")
	}
	symAssert(err != nil, "the request is refused")
	symIdle()
	x, y, z := cc.AcquireMessage(cc.Context()), cc.AcquireMessage(cc.Context()), cc.AcquireMessage(cc.Context())
	symAssert(x != y && y != z && x != z, "the pool never hands one message to two owners")
}

// response writer: SetMessage releases the replaced message, Swap does not
func zzC12_writer() {
	symGhost(true)
	s := zzNewSession()
	cc := zzNewConn(s, zzConnCfg{midSeed: 1000, poolSize: 1024})
	first := cc.AcquireMessage(cc.Context())
	w := responsewriter.New(first, cc)
	second := cc.AcquireMessage(cc.Context())
	if symChoose("op", 2) == 0 {
		w.SetMessage(second)
		symCover("setmessage")
		symAssert(symReleased(first) && !symReleased(second), "SetMessage releases the replaced message and keeps the new one")
	} else {
		old := w.Swap(second)
		symCover("swap")
		symAssert(old == first && !symReleased(first) && !symReleased(second), "Swap hands the replaced message back without releasing it")
		cc.ReleaseMessage(old)
	}
	cc.ReleaseMessage(w.Message())
}

func zzC12_selftest() {
	symGhost(true)
	s := zzNewSession()
	cc := zzNewConn(s, zzConnCfg{midSeed: 1000, poolSize: 1024})
	m := cc.AcquireMessage(cc.Context())
	cc.ReleaseMessage(m)
	m.SetCode(codes.GET) // use after release: the ghost state must flag this
}

// a keep-alive ping is cancelled (its caller gave up) while the housekeeping sweep is walking the retransmission
// table: the sweep takes each element with the table unlocked, so it may look at the ping's element just after the
// cancel removed it - the ping message goes back to the pool exactly once and is not touched afterwards
func zzC12_ping_cancel_race() {
	symGhost(true)
	s := zzNewSession()
	cc := zzNewConn(s, zzConnCfg{midSeed: 1000, nstart: 2, maxRetrans: 2, ackTimeout: 1 << 20, poolSize: 1024})
	now := int64(1 << 41)
	symSetNow(time.Unix(0, now))
	cancel, err := cc.AsyncPing(func() {})
	symAssert(err == nil, "the ping is sent")
	if err != nil {
		return
	}
	// another outstanding request, so that the sweep has more than one element to walk
	a := &zzCall{token: message.Token{0xB1}}
	go zzDo(cc, a)
	zzWaitWritten(s, 2)
	symIdle()
	swept := false
	late := now + 1<<24
	go func() {
		symSetNow(time.Unix(0, late))
		cc.CheckExpirations(time.Unix(0, late))
		swept = true
	}()
	cancel()
	symWaitUntil(func() bool { return swept })
	symCover("cancel-raced-sweep")
	// whoever acquires messages now owns them exclusively
	x, y, z := cc.AcquireMessage(cc.Context()), cc.AcquireMessage(cc.Context()), cc.AcquireMessage(cc.Context())
	symAssert(x != y && y != z && x != z, "the pool never hands one message to two owners")
	x.SetCode(codes.GET)
	_ = x.SetPath("/private")
	late += 1 << 26
	symSetNow(time.Unix(0, late))
	before := len(s.written)
	cc.CheckExpirations(time.Unix(0, late))
	for _, w := range s.written[before:] {
		symAssert(w.code != codes.GET || len(w.token) > 0, "the sweep never transmits a message that belongs to another owner")
	}
	zzAnswer(cc, s.written[1], 1, 0, 1)
	symWaitUntil(func() bool { return a.done })
	if a.resp != nil {
		cc.ReleaseMessage(a.resp)
	}
}
