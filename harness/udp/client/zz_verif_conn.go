package client

import (
	"errors"
	"context"
	"net"

	"github.com/plgd-dev/go-coap/v3/message"
	"github.com/plgd-dev/go-coap/v3/message/codes"
	"github.com/plgd-dev/go-coap/v3/message/pool"
	coapNet "github.com/plgd-dev/go-coap/v3/net"
	"github.com/plgd-dev/go-coap/v3/net/blockwise"
	"github.com/plgd-dev/go-coap/v3/net/responsewriter"
)

// In-memory datagram session shared by the connection-level harnesses: records what the connection writes.

type zzWritten struct {
	typ     message.Type
	mid     int32
	code    codes.Code
	token   []byte
	payload []byte
	nopts   int
	cf      int32
	raw     []byte
	at      int64 // pinned clock value when written (harnesses that pin the clock)
}

type zzSession struct {
	ctx     context.Context
	cancel  context.CancelFunc
	done    chan struct{}
	written []zzWritten
	failing bool
	now     *int64
	onWrite func(w *zzWritten)
	yield   bool
	failWrites int // the next n writes fail at the socket (nothing reaches the wire)
}

var zzErrSocket = errors.New("socket write fails")

func zzNewSession() *zzSession {
	ctx, cancel := context.WithCancel(context.Background())
	return &zzSession{ctx: ctx, cancel: cancel, done: make(chan struct{})}
}

func (s *zzSession) Context() context.Context { return s.ctx }
func (s *zzSession) Close() error             { s.cancel(); return nil }
func (s *zzSession) MaxMessageSize() uint32    { return 1152 }
func (s *zzSession) RemoteAddr() net.Addr      { return nil }
func (s *zzSession) LocalAddr() net.Addr       { return nil }
func (s *zzSession) NetConn() net.Conn         { return nil }
func (s *zzSession) Run(cc *Conn) error        { return nil }
func (s *zzSession) AddOnClose(f EventFunc)    {}
func (s *zzSession) Done() <-chan struct{}     { return s.done }
func (s *zzSession) SetContextValue(key interface{}, val interface{}) {
}
func (s *zzSession) WriteMulticastMessage(req *pool.Message, address *net.UDPAddr, opts ...coapNet.MulticastOption) error {
	return s.WriteMessage(req)
}

func (s *zzSession) WriteMessage(req *pool.Message) error {
	if s.yield {
		symYield() // the real session marshals and does socket I/O here: other goroutines may run
	}
	if s.failWrites > 0 {
		s.failWrites--
		return zzErrSocket
	}
	w := zzWritten{typ: req.Type(), mid: req.MessageID(), code: req.Code(), token: append([]byte(nil), req.Token()...), nopts: len(req.Options()), cf: -1}
	if cf, err := req.ContentFormat(); err == nil {
		w.cf = int32(cf)
	}
	if b, err := req.ReadBody(); err == nil {
		w.payload = b
	}
	if s.now != nil {
		w.at = *s.now
	}
	s.written = append(s.written, w)
	if s.onWrite != nil {
		s.onWrite(&s.written[len(s.written)-1])
	}
	return nil
}

type zzConnCfg struct {
	handler    HandlerFunc
	midSeed    int32
	ackTimeout int64
	maxRetrans uint32
	nstart     uint32
	errs       *int
	poolSize   uint32
	blockwise  bool // block-wise transfer enabled (SZX 16, the same wiring as udp.Client)
	limit      int64 // parallel-request limit (0: 4)
	eplimit    int64 // per-endpoint parallel-request limit (0: 4)
	monitor    InactivityMonitor
}

func zzNewConn(s *zzSession, c zzConnCfg) *Conn {
	cfg := Config{}
	cfg.Ctx = context.Background()
	cfg.MaxMessageSize = 1152
	cfg.MessagePool = pool.New(c.poolSize, 1024)
	cfg.Errors = func(error) {
		if c.errs != nil {
			*c.errs++
		}
	}
	cfg.GetMID = func() int32 { return c.midSeed }
	n := 0
	cfg.GetToken = func() (message.Token, error) { n++; return message.Token{0xEE, byte(n)}, nil }
	cfg.Handler = c.handler
	if cfg.Handler == nil {
		cfg.Handler = func(w *responsewriter.ResponseWriter[*Conn], r *pool.Message) {}
	}
	cfg.TransmissionNStart = c.nstart
	if cfg.TransmissionNStart == 0 {
		cfg.TransmissionNStart = 1
	}
	cfg.TransmissionAcknowledgeTimeout = 2000000000
	if c.ackTimeout != 0 {
		cfg.TransmissionAcknowledgeTimeout = timeDuration(c.ackTimeout)
	}
	cfg.TransmissionMaxRetransmit = c.maxRetrans
	cfg.LimitClientParallelRequests = 4
	cfg.LimitClientEndpointParallelRequests = 4
	if c.limit > 0 {
		cfg.LimitClientParallelRequests = c.limit
	}
	if c.eplimit > 0 {
		cfg.LimitClientEndpointParallelRequests = c.eplimit
	}
	cfg.ReceivedMessageQueueSize = 2
	if c.monitor != nil {
		return NewConnWithOpts(s, &cfg, WithInactivityMonitor(c.monitor))
	}
	if c.blockwise {
		cfg.BlockwiseSZX = blockwise.SZX16
		return NewConnWithOpts(s, &cfg, WithBlockWise(func(v *Conn) *blockwise.BlockWise[*Conn] {
			return blockwise.New(v, timeDuration(3000000000), cfg.Errors, func(token message.Token) (*pool.Message, bool) {
				return v.GetObservationRequest(token)
			})
		}))
	}
	return NewConnWithOpts(s, &cfg)
}

func zzRequest(typ message.Type, mid int32, code codes.Code, token message.Token, payload []byte) *pool.Message {
	m := pool.NewMessage(context.Background())
	m.SetType(typ)
	m.SetMessageID(mid)
	m.SetCode(code)
	m.SetToken(token)
	if len(payload) > 0 {
		m.SetContentFormat(message.AppOctets)
		m.SetBody(bytesReader(payload))
	}
	return m
}

func zzWaitWritten(s *zzSession, n int) {
	symWaitUntil(func() bool { return len(s.written) >= n })
}

func zzBlockOpt(num int64, more bool) uint32 {
	v, _ := blockwise.EncodeBlockOption(blockwise.SZX16, num, more)
	return v
}

func zzBigBody(n int, seed byte) []byte {
	b := make([]byte, n)
	for i := range b {
		b[i] = seed + byte(i)
	}
	return b
}

