package client

import (
	"bytes"
	"time"
	"context"

	"github.com/plgd-dev/go-coap/v3/message"
	"github.com/plgd-dev/go-coap/v3/message/codes"
	"github.com/plgd-dev/go-coap/v3/message/pool"
	"github.com/plgd-dev/go-coap/v3/udp/coder"
)

// C03 — two callers with distinct tokens (or, in the second harness, the same token) issue requests concurrently;
// the peer (the harness main thread) answers in a decided order, style and multiplicity. Every call that returns
// successfully returns a response with its own token and the content the peer produced for that token.

func zzDatagram(typ message.Type, mid int32, code codes.Code, token message.Token, payload []byte) []byte {
	m := zzRequest(typ, mid, code, token, payload)
	b, err := m.MarshalWithEncoder(coder.DefaultCoder)
	if err != nil {
		return nil
	}
	return append([]byte(nil), b...)
}

type zzCall struct {
	token message.Token
	resp  *pool.Message
	err   error
	done  bool
	tok   []byte
	body  []byte
}

func zzDo(cc *Conn, c *zzCall) {
	req := pool.NewMessage(context.Background())
	req.SetCode(codes.GET)
	req.SetToken(c.token)
	_ = req.SetPath("/a")
	c.resp, c.err = cc.Do(req)
	if c.err == nil && c.resp != nil {
		c.tok = c.resp.Token()
		c.body, _ = c.resp.ReadBody()
	}
	c.done = true
}

// answer sends the peer's reaction to one written request
func zzAnswer(cc *Conn, w zzWritten, tag byte, style int, copies int) {
	for i := 0; i < copies; i++ {
		switch style {
		case 0: // piggybacked response in the acknowledgement
			_ = cc.Process(nil, zzDatagram(message.Acknowledgement, w.mid, codes.Content, w.token, []byte{tag}))
		case 1: // empty acknowledgement, then a separate non-confirmable response
			_ = cc.Process(nil, zzDatagram(message.Acknowledgement, w.mid, codes.Empty, nil, nil))
			_ = cc.Process(nil, zzDatagram(message.NonConfirmable, 20000+int32(tag), codes.Content, w.token, []byte{tag}))
		}
	}
}

func zzC03_distinct() {
	s := zzNewSession()
	cc := zzNewConn(s, zzConnCfg{midSeed: 1000, nstart: 2, maxRetrans: 4})
	a := &zzCall{token: message.Token{0xA1, 0xA2}}
	b := &zzCall{token: message.Token{0xB1}}
	if symChoose("tokens", 2) == 1 {
		// caller-chosen tokens that differ only in length / leading zero bytes are still distinct tokens
		a.token = message.Token{0x00, 0x01}
		b.token = message.Token{0x01}
		symCover("lookalike-tokens")
	}
	tagA, tagB := symU8("tagA"), symU8("tagB")
	go zzDo(cc, a)
	go zzDo(cc, b)
	symWaitUntil(func() bool { return len(s.written) >= 2 })
	// which request the peer answers first, how, and how many times
	first := symChoose("first", 2)
	for k := 0; k < 2; k++ {
		w := s.written[(first+k)%2]
		tag := tagA
		if len(w.token) == 1 {
			tag = tagB
		}
		zzAnswer(cc, w, tag, symChoose("style", 2), 1+symChoose("dup", symParam("dups", 2)))
	}
	symWaitUntil(func() bool { return a.done && b.done })
	symCover("both-returned")
	symAssert(a.err == nil && b.err == nil, "both requests were answered, so both calls succeed")
	if a.err == nil {
		symAssert(len(a.tok) == 2 && a.tok[0] == a.token[0] && a.tok[1] == a.token[1] && len(a.body) == 1 && a.body[0] == tagA, "caller A gets the response carrying its token and the content produced for it")
	}
	if b.err == nil {
		symAssert(len(b.tok) == 1 && b.tok[0] == b.token[0] && len(b.body) == 1 && b.body[0] == tagB, "caller B gets the response carrying its token and the content produced for it")
	}
	symAssert(a.resp != b.resp || a.resp == nil, "no response object is delivered to two callers")
	symAssert(cc.tokenHandlerContainer.Length() == 0, "no token continuation is left behind")
}

// a second request with a token that is still outstanding is rejected and does not displace the first
func zzC03_sametoken() {
	s := zzNewSession()
	cc := zzNewConn(s, zzConnCfg{midSeed: 1000, nstart: 2, maxRetrans: 4})
	tok := message.Token{0xC1, 0xC2}
	a := &zzCall{token: tok}
	b := &zzCall{token: tok}
	tag := symU8("tag")
	go zzDo(cc, a)
	symWaitUntil(func() bool { return len(s.written) >= 1 })
	go zzDo(cc, b)
	symWaitUntil(func() bool { return b.done })
	symCover("second-returned")
	symAssert(b.err != nil, "a request with a token that is still outstanding is rejected")
	symAssert(len(s.written) == 1, "and is not transmitted")
	zzAnswer(cc, s.written[0], tag, symChoose("style", 2), 1)
	symWaitUntil(func() bool { return a.done })
	symAssert(a.err == nil && len(a.body) == 1 && a.body[0] == tag, "the first request still gets its answer")
}

// the pool recycles: a first exchange whose response the application releases the moment Do returns (racing with
// the receive path that delivered it, one preemption), then two concurrent requests answered in a decided order
func zzC03_recycle() {
	s := zzNewSession()
	cc := zzNewConn(s, zzConnCfg{midSeed: 1000, nstart: 2, maxRetrans: 4, poolSize: 1024})
	done0 := false
	go func() {
		req := pool.NewMessage(context.Background())
		req.SetCode(codes.GET)
		req.SetToken(message.Token{0xC1})
		_ = req.SetPath("/a")
		if resp, err := cc.Do(req); err == nil {
			cc.ReleaseMessage(resp)
		}
		done0 = true
	}()
	zzWaitWritten(s, 1)
	zzAnswer(cc, s.written[0], 1, 0, 1)
	symWaitUntil(func() bool { return done0 })
	symIdle()
	symPreemptBudget(0)
	a := &zzCall{token: message.Token{0xA1, 0xA2}}
	b := &zzCall{token: message.Token{0xB1}}
	go zzDo(cc, a)
	zzWaitWritten(s, 2)
	symIdle()
	go zzDo(cc, b)
	zzWaitWritten(s, 3)
	symIdle()
	first := symChoose("first", 2)
	for k := 0; k < 2; k++ {
		w := s.written[1+(first+k)%2]
		tag := byte(0x5A)
		if len(w.token) == 1 {
			tag = 0x5B
		}
		zzAnswer(cc, w, tag, 0, 1)
	}
	symWaitUntil(func() bool { return a.done && b.done })
	symCover("recycled-both-returned")
	symAssert(a.err == nil && b.err == nil, "both requests were answered, so both calls succeed")
	if a.err == nil {
		symAssert(len(a.tok) == 2 && a.tok[0] == 0xA1 && len(a.body) == 1 && a.body[0] == 0x5A, "caller A gets the response carrying its token and the content produced for it")
	}
	if b.err == nil {
		symAssert(len(b.tok) == 1 && b.tok[0] == 0xB1 && len(b.body) == 1 && b.body[0] == 0x5B, "caller B gets the response carrying its token and the content produced for it")
	}
	symAssert(a.resp != b.resp || a.resp == nil, "no response object is delivered to two callers")
}

// a caller-chosen token is used again after its first exchange has ended; the peer's late retransmission of the
// first exchange's separate confirmable response (same message ID) arrives while the second request is
// outstanding: the second call returns the content produced for the second request, never the old response
func zzC03_token_reuse() {
	s := zzNewSession()
	cc := zzNewConn(s, zzConnCfg{midSeed: 1000, nstart: 2, maxRetrans: 4})
	symSetNow(time.Unix(0, 1<<41)) // everything happens within one exchange lifetime
	tok := message.Token{0xA1, 0xA2}
	tag1, tag2 := symU8("tag1"), symU8("tag2")
	// the separate response is confirmable: its retransmission is recognised by its message ID (a duplicated
	// non-confirmable response that matches a reused token is inherent to the protocol and not claimed)
	rtyp := message.Confirmable
	a := &zzCall{token: tok}
	go zzDo(cc, a)
	zzWaitWritten(s, 1)
	// empty ACK, then the separate response with the peer's own message ID
	_ = cc.Process(nil, zzDatagram(message.Acknowledgement, s.written[0].mid, codes.Empty, nil, nil))
	old := zzDatagram(rtyp, 30001, codes.Content, tok, []byte{tag1})
	_ = cc.Process(nil, old)
	symWaitUntil(func() bool { return a.done })
	symIdle()
	symAssert(a.err == nil && len(a.body) == 1 && a.body[0] == tag1, "the first call returns the first response")
	// the same token again
	b := &zzCall{token: tok}
	base := len(s.written)
	go zzDo(cc, b)
	zzWaitWritten(s, base+1)
	symIdle()
	symAssert(!b.done, "the second request is outstanding")
	// the peer retransmits the old separate response (it missed our acknowledgement), same message ID
	_ = cc.Process(nil, append([]byte(nil), old...))
	symIdle()
	symCover("late-duplicate-delivered")
	if b.done {
		symAssert(b.err != nil || len(b.body) == 1 && b.body[0] == tag2, "a retransmitted response of an earlier exchange is not delivered to a later request with the same token")
	}
	if !b.done {
		// now the real answer
		var w zzWritten
		for _, x := range s.written[base:] {
			if x.code == codes.GET {
				w = x
			}
		}
		zzAnswer(cc, w, tag2, 0, 1)
		symWaitUntil(func() bool { return b.done })
		symAssert(b.err == nil && len(b.body) == 1 && b.body[0] == tag2, "the second call returns the content produced for the second request")
	}
	symAssert(cc.tokenHandlerContainer.Length() == 0, "no token continuation is left behind")
}

// block-wise on: two callers with distinct tokens fetch two different 40-byte representations; the peer serves the
// blocks of the two transfers in a decided interleaving; each caller gets exactly its own body
func zzC03_blockwise() {
	zzBlkNext = [2]int{}
	s := zzNewSession()
	cc := zzNewConn(s, zzConnCfg{midSeed: 1000, nstart: 2, maxRetrans: 4, blockwise: true})
	symSetNow(time.Unix(0, 1<<41))
	toks := []message.Token{{0xA1, 0xA2}, {0xB1}}
	bodies := [][]byte{zzBigBody(40, 0x10), zzBigBody(40, 0x80)}
	bodies[0][0], bodies[1][0] = symU8("a0"), symU8("b0")
	bodies[0][39], bodies[1][39] = symU8("a39"), symU8("b39")
	calls := []*zzCall{{token: toks[0]}, {token: toks[1]}}
	for _, c := range calls {
		go zzDo(cc, c)
	}
	served := 0 // index into s.written of the next request not yet answered
	for round := 0; round < 8; round++ {
		if calls[0].done && calls[1].done {
			break
		}
		// wait until there is an unanswered request on the wire
		symWaitUntil(func() bool {
			n := 0
			for _, w := range s.written[served:] {
				if w.code == codes.GET {
					n++
				}
			}
			return n > 0 || calls[0].done && calls[1].done
		})
		symIdle()
		var pend []int
		for k := served; k < len(s.written); k++ {
			if s.written[k].code == codes.GET {
				pend = append(pend, k)
			}
		}
		if len(pend) == 0 {
			break
		}
		// the peer answers one of the pending block requests (decided which); the others stay pending
		pick := pend[symChoose("serve", len(pend))]
		w := s.written[pick]
		who := 0
		if len(w.token) == 1 {
			who = 1
		}
		// which block does the request ask for: recover it from the raw request is not recorded, so the peer keeps
		// its own per-transfer counter
		num := zzBlkNext[who]
		zzBlkNext[who]++
		lo, hi := 16*num, 16*num+16
		more := true
		if hi >= 40 {
			hi, more = 40, false
		}
		m := zzRequest(message.Acknowledgement, w.mid, codes.Content, w.token, bodies[who][lo:hi])
		m.SetOptionUint32(message.Block2, zzBlockOpt(int64(num), more))
		_ = m.SetETag([]byte{byte(who + 1)})
		d, _ := m.MarshalWithEncoder(coder.DefaultCoder)
		// mark this request as answered by swapping it to the front of the unanswered region
		s.written[pick], s.written[served] = s.written[served], s.written[pick]
		served++
		_ = cc.Process(nil, append([]byte(nil), d...))
	}
	symWaitUntil(func() bool { return calls[0].done && calls[1].done })
	symCover("both-downloaded")
	for i, c := range calls {
		symAssert(c.err == nil, "the block-wise download completes")
		if c.err == nil {
			symAssert(bytes.Equal(c.body, bodies[i]) && bytes.Equal(c.tok, toks[i]), "each caller receives exactly the representation served for its own token")
		}
	}
}

var zzBlkNext [2]int

// block-wise on: while a multi-block download is in progress, a second request with the same token is issued; it
// is rejected, and the download it collided with still completes with its full body
func zzC03_blockwise_sametoken() {
	s := zzNewSession()
	cc := zzNewConn(s, zzConnCfg{midSeed: 1000, nstart: 2, maxRetrans: 4, blockwise: true})
	symSetNow(time.Unix(0, 1<<41))
	tok := message.Token{0xA1, 0xA2}
	body := zzBigBody(40, 0x10)
	body[0], body[39] = symU8("b0"), symU8("b39")
	a := &zzCall{token: tok}
	go zzDo(cc, a)
	serve := func(k int, num int) {
		w := s.written[k]
		lo, hi := 16*num, 16*num+16
		more := true
		if hi >= 40 {
			hi, more = 40, false
		}
		m := zzRequest(message.Acknowledgement, w.mid, codes.Content, w.token, body[lo:hi])
		m.SetOptionUint32(message.Block2, zzBlockOpt(int64(num), more))
		_ = m.SetETag([]byte{7})
		d, _ := m.MarshalWithEncoder(coder.DefaultCoder)
		_ = cc.Process(nil, append([]byte(nil), d...))
	}
	zzWaitWritten(s, 1)
	symIdle()
	serve(0, 0)
	zzWaitWritten(s, 2) // the request for block 1 is on the wire
	symIdle()
	symAssert(!a.done, "the download is in progress")
	// a second request with the same token while the first is outstanding
	b := &zzCall{token: tok}
	go zzDo(cc, b)
	symWaitUntil(func() bool { return b.done })
	symIdle()
	symAssert(b.err != nil, "a second request with a token that is still outstanding is rejected")
	symCover("duplicate-token-rejected")
	next := 1
	for k := 1; k < len(s.written) && k < 6 && !a.done; k++ {
		if s.written[k].code != codes.GET {
			continue
		}
		serve(k, next)
		next++
		symIdle()
	}
	symWaitUntil(func() bool { return a.done })
	symAssert(a.err == nil && bytes.Equal(a.body, body), "rather than displacing the first: the download it collided with completes with its full body")
}

func zzC03_selftest() {
	s := zzNewSession()
	cc := zzNewConn(s, zzConnCfg{midSeed: 1000, nstart: 2, maxRetrans: 4})
	a := &zzCall{token: message.Token{0xA1, 0xA2}}
	go zzDo(cc, a)
	symWaitUntil(func() bool { return len(s.written) >= 1 })
	zzAnswer(cc, s.written[0], 9, 0, 1)
	symWaitUntil(func() bool { return a.done })
	symAssert(a.err != nil, "selftest: must fail (the request was answered)")
}

// a response that arrives for a request whose call ends by another path - the peer sent a separate response but
// never acknowledged the request and the caller gave up; or the response and the cancellation arrive together - is
// never handed to a later request: the next call on the connection gets its own token and content
func zzC03_late_response() {
	s := zzNewSession()
	cc := zzNewConn(s, zzConnCfg{midSeed: 1000, nstart: 2, maxRetrans: 4, ackTimeout: 1 << 30})
	symSetNow(time.Unix(0, 1<<41))
	tagA, tagB := symU8("tagA"), symU8("tagB")
	ctx, cancel := context.WithCancel(context.Background())
	a := &zzCall{token: message.Token{0xA0, 0x00}}
	go func() {
		req := pool.NewMessage(ctx)
		req.SetCode(codes.GET)
		req.SetToken(a.token)
		_ = req.SetPath("/a")
		a.resp, a.err = cc.Do(req)
		if a.err == nil && a.resp != nil {
			a.tok = a.resp.Token()
			a.body, _ = a.resp.ReadBody()
		}
		a.done = true
	}()
	zzWaitWritten(s, 1)
	symIdle()
	w := s.written[0]
	how := symChoose("how", 2)
	if how == 0 {
		// a separate response, the request itself is never acknowledged
		_ = cc.Process(nil, zzDatagram(message.NonConfirmable, 20001, codes.Content, w.token, []byte{tagA}))
		symIdle()
		symCover("separate-response-without-ack")
	} else {
		// acknowledged; the response and the caller's cancellation arrive together
		_ = cc.Process(nil, zzDatagram(message.Acknowledgement, w.mid, codes.Empty, nil, nil))
		symIdle()
		symSchedCanonical(true)
		_ = cc.Process(nil, zzDatagram(message.NonConfirmable, 20001, codes.Content, w.token, []byte{tagA}))
		symSchedCanonical(false)
		symCover("response-races-cancel")
	}
	cancel()
	symWaitUntil(func() bool { return a.done })
	if a.err == nil {
		symAssert(bytes.Equal(a.tok, a.token) && len(a.body) == 1 && a.body[0] == tagA, "a call that succeeds returns its own response")
	}
	// the next request on the connection
	b := &zzCall{token: message.Token{0xB0}}
	go zzDo(cc, b)
	zzWaitWritten(s, 2)
	symIdle()
	symAssert(!b.done, "a request is not completed before its response has arrived")
	zzAnswer(cc, s.written[len(s.written)-1], tagB, 0, 1)
	symWaitUntil(func() bool { return b.done })
	symCover("next-request-returned")
	symAssert(b.err == nil, "the next request is answered, so it succeeds")
	if b.err == nil {
		symAssert(bytes.Equal(b.tok, b.token), "the next request returns a response carrying its own token")
		symAssert(len(b.body) == 1 && b.body[0] == tagB, "and the content produced for it")
	}
}

// a token is reused the moment its exchange is over on the wire: the response of request A has been delivered to
// A's call, which has not returned yet, when another goroutine issues request B with the same (caller-chosen)
// token. B is either refused (the token is still A's) or accepted - and an accepted B owns the token: it gets the
// response the peer produces for it, and a third request C with the token is refused while B is outstanding
func zzC03_token_handover() {
	s := zzNewSession()
	cc := zzNewConn(s, zzConnCfg{midSeed: 1000, nstart: 4, maxRetrans: 4, ackTimeout: 1 << 30})
	symSetNow(time.Unix(0, 1<<41))
	tok := message.Token{0x77}
	tagA, tagB := symU8("tagA"), symU8("tagB")
	a := &zzCall{token: tok}
	go zzDo(cc, a)
	zzWaitWritten(s, 1)
	symIdle()
	// A's response arrives; A's goroutine is runnable from here on but need not have run
	zzAnswer(cc, s.written[0], tagA, 0, 1)
	b := &zzCall{token: tok}
	go zzDo(cc, b)
	symWaitUntil(func() bool { return a.done })
	symAssert(a.err == nil && len(a.body) == 1 && a.body[0] == tagA, "the first request returns its own response")
	symIdle()
	if b.done {
		symCover("reuse-refused")
		symAssert(b.err != nil, "a request that ends before any response for it arrived was refused")
		return
	}
	symCover("reuse-accepted")
	symAssert(len(s.written) == 2, "the accepted request is on the wire")
	// B is outstanding: a third request with the token must be refused and must not disturb B
	c := &zzCall{token: tok}
	go zzDo(cc, c)
	symIdle()
	symAssert(c.done && c.err != nil, "a request issued with a token that is still outstanding is rejected")
	zzAnswer(cc, s.written[1], tagB, 0, 1)
	symIdle()
	symAssert(b.done && b.err == nil, "the outstanding request is completed by the response the peer produced for it")
	if b.done && b.err == nil {
		symAssert(len(b.body) == 1 && b.body[0] == tagB, "and returns that response")
	}
	if c.err == nil {
		symAssert(!(len(c.body) == 1 && c.body[0] == tagB), "a response is never delivered to a different caller")
	}
}

// two callers issue a request with the same token at the same instant: exactly one of them is accepted, the other is
// refused - never both (the check for an outstanding token and its registration are one step)
func zzC03_sametoken_race() {
	s := zzNewSession()
	cc := zzNewConn(s, zzConnCfg{midSeed: 1000, nstart: 2, maxRetrans: 4})
	tok := message.Token{0xC1, 0xC2}
	a := &zzCall{token: tok}
	b := &zzCall{token: tok}
	tag := symU8("tag")
	go zzDo(cc, a)
	go zzDo(cc, b)
	symIdle()
	symCover("both-issued")
	symAssert(len(s.written) == 1, "exactly one of two simultaneous requests with one token is transmitted")
	symAssert(a.done != b.done, "and exactly one of them is refused at once")
	if len(s.written) != 1 || a.done == b.done {
		return
	}
	refused, accepted := a, b
	if b.done {
		refused, accepted = b, a
	}
	symAssert(refused.err != nil, "a request with a token that is still outstanding is rejected")
	zzAnswer(cc, s.written[0], tag, 0, 1)
	symWaitUntil(func() bool { return accepted.done })
	symAssert(accepted.err == nil && len(accepted.body) == 1 && accepted.body[0] == tag, "the accepted request gets its answer")
}
