package client

import (
	"context"
	"time"

	"github.com/plgd-dev/go-coap/v3/message"
	"github.com/plgd-dev/go-coap/v3/message/codes"
	"github.com/plgd-dev/go-coap/v3/message/pool"
	"github.com/plgd-dev/go-coap/v3/udp/coder"
)

// C09 on the datagram connection — a blocking operation is started; the peer is silent, or acknowledges without
// ever responding; at a decided stage the operation's context is cancelled or the connection is closed (the
// session context is cancelled, which is what every real session's Close does first). The operation returns:
// a state in which it can never proceed is reported by the engine as a deadlock. Time does not advance, so
// "returns" means "returns without needing any further event" (no retransmission timer, no peer message).

type zzOp struct {
	done bool
	err  error
}

func zzRegisterObservation(cc *Conn, s *zzSession, tokO message.Token) interface {
	Cancel(ctx context.Context, opts ...message.Option) error
} {
	base := len(s.written)
	var obs interface {
		Cancel(ctx context.Context, opts ...message.Option) error
	}
	odone := false
	go func() {
		req := pool.NewMessage(context.Background())
		req.SetCode(codes.GET)
		req.SetToken(tokO)
		_ = req.SetPath("/obs")
		req.SetObserve(0)
		o, err := cc.DoObserve(req, func(n *pool.Message) {})
		if err == nil {
			obs = o
		}
		odone = true
	}()
	zzWaitWritten(s, base+1)
	resp := zzRequest(message.Acknowledgement, s.written[base].mid, codes.Content, tokO, []byte{1})
	resp.SetObserve(5)
	b, _ := resp.MarshalWithEncoder(coder.DefaultCoder)
	_ = cc.Process(nil, append([]byte(nil), b...))
	symWaitUntil(func() bool { return odone })
	return obs
}

func zzC09_udp() {
	s := zzNewSession()
	cc := zzNewConn(s, zzConnCfg{midSeed: 1000, nstart: 1, maxRetrans: 4, ackTimeout: 1 << 30})
	symSetNow(time.Unix(0, 1<<41))
	op := symChoose("operation", 6)
	stage := symChoose("stage", 4)
	end := symChoose("end", 2)
	var obs interface {
		Cancel(ctx context.Context, opts ...message.Option) error
	}
	if op == 3 {
		obs = zzRegisterObservation(cc, s, message.Token{0x0B, 0x5E})
		symAssert(obs != nil, "the observation is registered")
		if obs == nil {
			return
		}
	}
	// stage 3: an earlier request is outstanding and unanswered, so that (NSTART 1) the operation has to queue
	blocker := &zzCall{token: message.Token{0xBB}}
	if stage == 3 {
		go zzDo(cc, blocker)
		zzWaitWritten(s, len(s.written)+1)
		symIdle()
	}
	base := len(s.written)
	ctx, cancel := context.WithCancel(context.Background())
	defer cancel()
	finish := func() {
		if end == 0 {
			cancel()
			symCover("context-cancelled")
		} else {
			symAssert(cc.Close() == nil, "Close succeeds")
			symCover("connection-closed")
		}
	}
	if stage == 0 {
		finish() // before the operation starts
	}
	x := &zzOp{}
	confirmable := true
	go func() {
		switch op {
		case 0, 1: // request, confirmable or not
			req := pool.NewMessage(ctx)
			req.SetCode(codes.GET)
			req.SetToken(message.Token{0xA1})
			_ = req.SetPath("/a")
			if op == 1 {
				req.SetType(message.NonConfirmable)
			}
			_, x.err = cc.Do(req)
		case 2: // observe registration
			req := pool.NewMessage(ctx)
			req.SetCode(codes.GET)
			req.SetToken(message.Token{0xA2})
			_ = req.SetPath("/obs")
			req.SetObserve(0)
			_, x.err = cc.DoObserve(req, func(n *pool.Message) {})
		case 3: // cancellation of an observation
			x.err = obs.Cancel(ctx)
		case 4: // ping
			x.err = cc.Ping(ctx)
		case 5: // one-way confirmable write
			req := pool.NewMessage(ctx)
			req.SetCode(codes.POST)
			req.SetToken(message.Token{0xA5})
			req.SetType(message.Confirmable)
			_ = req.SetPath("/a")
			x.err = cc.WriteMessage(req)
		}
		x.done = true
	}()
	if op == 1 {
		confirmable = false
	}
	switch stage {
	case 1, 2:
		zzWaitWritten(s, base+1) // the request is on the wire; the peer says nothing
		if stage == 2 && confirmable && op != 4 {
			// the peer acknowledges and then never responds
			_ = cc.Process(nil, zzDatagram(message.Acknowledgement, s.written[base].mid, codes.Empty, nil, nil))
			symCover("acknowledged-without-response")
		}
		symIdle()
		if op == 5 && stage == 2 {
			symAssert(x.done && x.err == nil, "an acknowledged one-way write has completed")
		} else {
			symAssert(!x.done, "without a response the operation is still waiting")
		}
		finish()
	case 3:
		symIdle()
		if op == 0 || op == 2 || op == 3 {
			symAssert(!x.done && len(s.written) == base, "the request queues behind the outstanding one")
			symCover("queued-behind-nstart")
		}
		finish()
	}
	symWaitUntil(func() bool { return x.done })
	symCover("returned")
	if !(op == 5 && stage == 2) && !(stage == 3 && (op == 1 || op == 4 || op == 5)) {
		symAssert(x.err != nil, "an operation that never got its answer returns an error")
	}
	// closing is idempotent, also after operations were cut short; everything still waiting returns
	symAssert(cc.Close() == nil, "Close succeeds")
	symAssert(cc.Close() == nil, "a repeated Close succeeds")
	if stage == 3 {
		symWaitUntil(func() bool { return blocker.done })
		symAssert(blocker.err != nil, "the outstanding request returns an error when the connection is closed")
	}
	symIdle()
	symCover("closed")
}

// the remaining stages of the property's list: queued behind the parallel-request limiter (limit 1, another
// request in flight), and in the middle of a block-wise upload or download (first block exchanged, then silence)
func zzC09_udp_more() {
	s := zzNewSession()
	stage := symChoose("stage", 3) // 0 limiter queue, 1 mid upload, 2 mid download
	end := symChoose("end", 2)
	cfg := zzConnCfg{midSeed: 1000, nstart: 4, maxRetrans: 4, ackTimeout: 1 << 30}
	if stage == 0 {
		cfg.limit = 1
	} else {
		cfg.blockwise = true
	}
	cc := zzNewConn(s, cfg)
	symSetNow(time.Unix(0, 1<<41))
	blocker := &zzCall{token: message.Token{0xBB}}
	if stage == 0 {
		go zzDo(cc, blocker)
		zzWaitWritten(s, 1)
		symIdle()
	}
	base := len(s.written)
	ctx, cancel := context.WithCancel(context.Background())
	defer cancel()
	x := &zzOp{}
	go func() {
		req := pool.NewMessage(ctx)
		req.SetToken(message.Token{0xA1, 0xA2})
		_ = req.SetPath("/big")
		if stage == 1 {
			req.SetCode(codes.PUT)
			req.SetContentFormat(message.AppOctets)
			req.SetBody(bytesReader(zzBigBody(40, 0x10)))
		} else {
			req.SetCode(codes.GET)
		}
		_, x.err = cc.Do(req)
		x.done = true
	}()
	switch stage {
	case 0:
		symIdle()
		symAssert(!x.done && len(s.written) == base, "the request waits for the only parallel-request slot")
		symCover("queued-behind-limiter")
	case 1, 2:
		zzWaitWritten(s, base+1)
		w := s.written[base]
		var m *pool.Message
		if stage == 1 {
			m = zzRequest(message.Acknowledgement, w.mid, codes.Continue, w.token, nil)
			m.SetOptionUint32(message.Block1, zzBlockOpt(0, true))
		} else {
			m = zzRequest(message.Acknowledgement, w.mid, codes.Content, w.token, zzBigBody(16, 0x70))
			m.SetOptionUint32(message.Block2, zzBlockOpt(0, true))
			_ = m.SetETag([]byte{1, 2})
		}
		d, _ := m.MarshalWithEncoder(coder.DefaultCoder)
		_ = cc.Process(nil, append([]byte(nil), d...))
		zzWaitWritten(s, base+2) // the next block is requested / sent; the peer says nothing more
		symIdle()
		symAssert(!x.done, "the transfer is still in progress")
		symCover("mid-blockwise")
	}
	if end == 0 {
		cancel()
		symCover("context-cancelled")
	} else {
		symAssert(cc.Close() == nil, "Close succeeds")
		symCover("connection-closed")
	}
	symWaitUntil(func() bool { return x.done })
	symCover("returned")
	symAssert(x.err != nil, "an operation that never got its answer returns an error")
	symAssert(cc.Close() == nil, "Close succeeds")
	if stage == 0 {
		symWaitUntil(func() bool { return blocker.done })
	}
	symIdle()
}

func zzC09_udp_selftest() {
	s := zzNewSession()
	cc := zzNewConn(s, zzConnCfg{midSeed: 1000, nstart: 1, maxRetrans: 4, ackTimeout: 1 << 30})
	symSetNow(time.Unix(0, 1<<41))
	c := &zzCall{token: message.Token{0xA1}}
	go zzDo(cc, c)
	zzWaitWritten(s, 1)
	symIdle()
	// nobody cancels, nobody closes, nobody answers: the call must not have returned
	symAssert(c.done, "selftest: must fail (an unanswered request has not returned)")
}
