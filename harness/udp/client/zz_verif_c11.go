package client

import (
	"context"
	"time"

	"github.com/plgd-dev/go-coap/v3/message"
	"github.com/plgd-dev/go-coap/v3/message/codes"
	"github.com/plgd-dev/go-coap/v3/message/pool"
	"github.com/plgd-dev/go-coap/v3/net/responsewriter"
	"github.com/plgd-dev/go-coap/v3/udp/coder"
)

// C11 at the connection — messages enter through Conn.Process (the socket reader's ordered hand-off into the
// receive queue). A decided sequence of stimuli (incoming requests, notifications of a registered observation)
// arrives; each one's handler / callback is decided to return at once or to block on a nested confirmable request
// on the same connection. The peer answers the nested requests in a decided order, interleaved with the later
// stimuli. Every stimulus is handled exactly once, every nested request gets its own response, nothing stalls.

type zzStim struct {
	notif   bool
	nested  bool
	non     bool // the nested request is non-confirmable
	handled int
	call    *zzCall
	ended   bool
}

func zzC11_udp_nested() {
	s := zzNewSession()
	n := symParam("stimuli", 2)
	st := make([]*zzStim, n)
	for i := range st {
		st[i] = &zzStim{notif: symChoose("stimulus-is-notification", 2) == 1, nested: symChoose("handler-blocks-on-nested-request", 2) == 1}
		if st[i].nested && symChoose("nested-request-is-non-confirmable", 2) == 1 {
			st[i].non = true
		}
	}
	var cc *Conn
	run := func(i int) {
		x := st[i]
		x.handled++
		if x.nested {
			x.call = &zzCall{token: message.Token{0xD0, byte(i)}}
			if x.non {
				c := x.call
				req := pool.NewMessage(context.Background())
				req.SetCode(codes.GET)
				req.SetType(message.NonConfirmable)
				req.SetToken(c.token)
				_ = req.SetPath("/a")
				c.resp, c.err = cc.Do(req)
				if c.err == nil && c.resp != nil {
					c.tok = c.resp.Token()
					c.body, _ = c.resp.ReadBody()
				}
				c.done = true
				symCover("nested-non-confirmable")
			} else {
				zzDo(cc, x.call)
			}
		}
		x.ended = true
	}
	cc = zzNewConn(s, zzConnCfg{midSeed: 1000, nstart: 4, maxRetrans: 4, handler: func(w *responsewriter.ResponseWriter[*Conn], r *pool.Message) {
		tok := r.Token()
		if len(tok) == 2 && tok[0] == 0xC0 && int(tok[1]) < n {
			run(int(tok[1]))
			_ = w.SetResponse(codes.Content, message.TextPlain, bytesReader([]byte{tok[1]}))
		}
	}})
	symSetNow(time.Unix(0, 1<<41))

	// the observation whose notifications are among the stimuli
	tokO := message.Token{0x0B, 0x5E}
	odone := false
	var oerr error
	first := 0
	go func() {
		req := pool.NewMessage(context.Background())
		req.SetCode(codes.GET)
		req.SetToken(tokO)
		_ = req.SetPath("/obs")
		req.SetObserve(0)
		_, oerr = cc.DoObserve(req, func(nt *pool.Message) {
			b, _ := nt.ReadBody()
			if len(b) == 1 && b[0] == 0xFF {
				first++
				return
			}
			if len(b) == 1 && int(b[0]) < n {
				run(int(b[0]))
			}
		})
		odone = true
	}()
	zzWaitWritten(s, 1)
	reg := zzRequest(message.Acknowledgement, s.written[0].mid, codes.Content, tokO, []byte{0xFF})
	reg.SetObserve(5)
	b, _ := reg.MarshalWithEncoder(coder.DefaultCoder)
	_ = cc.Process(nil, append([]byte(nil), b...))
	symWaitUntil(func() bool { return odone })
	symIdle()
	symAssert(oerr == nil && first == 1, "the observation is registered and its first notification delivered once")

	answered := 1 // index into s.written of the next nested request the peer has not answered yet
	answer := func(k int) {
		w := s.written[k]
		if w.typ == message.NonConfirmable {
			_ = cc.Process(nil, zzDatagram(message.NonConfirmable, 21000+int32(w.token[1]), codes.Content, w.token, []byte{w.token[1] + 0x40}))
			return
		}
		zzAnswer(cc, w, w.token[1]+0x40, symChoose("style", symParam("styles", 1)), 1)
	}
	var pendingNested []int // indices in s.written of nested requests not answered yet
	seq := uint32(5)
	for i := 0; i < n; i++ {
		x := st[i]
		if x.notif {
			seq++
			m := zzRequest(message.NonConfirmable, 30000+int32(i), codes.Content, tokO, []byte{byte(i)})
			m.SetObserve(seq)
			d, _ := m.MarshalWithEncoder(coder.DefaultCoder)
			_ = cc.Process(nil, append([]byte(nil), d...))
		} else {
			mid := 100 + int32(i)
			if i == 0 && x.nested && symChoose("peer-message-id", 2) == 1 {
				// the peer's message ID happens to be the one this endpoint would use next: the two ID spaces are
				// independent, the nested request must still get through
				mid = int32(uint16(cc.msgID.Load() + 1))
				symCover("peer-id-meets-own")
			}
			_ = cc.Process(nil, zzDatagram(message.Confirmable, mid, codes.GET, message.Token{0xC0, byte(i)}, nil))
		}
		if x.nested {
			// the handler must get to run and send its nested request although earlier handlers still block
			want := 0
			for j := 0; j <= i; j++ {
				if st[j].nested {
					want++
				}
			}
			symWaitUntil(func() bool {
				c := 0
				for _, w := range s.written {
					if len(w.token) == 2 && w.token[0] == 0xD0 && w.code == codes.GET {
						c++
					}
				}
				return c >= want
			})
			for k := answered; k < len(s.written); k++ {
				w := s.written[k]
				if w.code == codes.GET && len(w.token) == 2 && w.token[0] == 0xD0 && int(w.token[1]) == i {
					pendingNested = append(pendingNested, k)
				}
			}
			answered = len(s.written)
		}
		// the peer may answer one outstanding nested request now, before the next stimulus arrives
		if len(pendingNested) > 0 && i < n-1 && symChoose("answer-now", 2) == 1 {
			k := symChoose("which", len(pendingNested))
			answer(pendingNested[k])
			pendingNested = append(pendingNested[:k:k], pendingNested[k+1:]...)
		}
	}
	for len(pendingNested) > 0 {
		k := symChoose("which", len(pendingNested))
		answer(pendingNested[k])
		pendingNested = append(pendingNested[:k:k], pendingNested[k+1:]...)
	}
	symWaitUntil(func() bool {
		for _, x := range st {
			if !x.ended {
				return false
			}
		}
		return true
	})
	symIdle() // the responses of the handlers that have just returned are written by the processing goroutines
	symCover("all-handled")
	anyNested := false
	for i, x := range st {
		symAssert(x.handled == 1, "every accepted message is dispatched to its handler or callback exactly once")
		if x.nested {
			anyNested = true
			symAssert(x.call.done && x.call.err == nil, "a request issued from inside a handler or callback completes")
			if x.call.err == nil {
				symAssert(len(x.call.body) == 1 && x.call.body[0] == byte(i)+0x40, "and gets the response produced for it")
			}
		}
	}
	if anyNested {
		symCover("nested")
	}
	// every incoming request got its response, once
	for i, x := range st {
		if x.notif {
			continue
		}
		c := 0
		for _, w := range s.written {
			if len(w.token) == 2 && w.token[0] == 0xC0 && int(w.token[1]) == i && w.code == codes.Content {
				c++
			}
		}
		symAssert(c == 1, "each incoming request is answered once")
	}
}

// a burst of datagrams longer than the receive queue arrives faster than the handlers drain it (the socket
// reader calls Process back to back): handlers that return at once see the messages in arrival order, each once
func zzC11_udp_burst() {
	s := zzNewSession()
	var order []byte
	cc := zzNewConn(s, zzConnCfg{midSeed: 1000, handler: func(w *responsewriter.ResponseWriter[*Conn], r *pool.Message) {
		if t := r.Token(); len(t) == 2 && t[0] == 0xC0 {
			order = append(order, t[1])
		}
	}})
	symSetNow(time.Unix(0, 1<<41))
	n := symParam("burst", 5) // the receive queue holds 2
	for i := 0; i < n; i++ {
		_ = cc.Process(nil, zzDatagram(message.NonConfirmable, 100+int32(i), codes.POST, message.Token{0xC0, byte(i)}, nil))
	}
	symIdle()
	symCover("burst-delivered")
	symAssert(len(order) == n, "every message of the burst is dispatched exactly once")
	inOrder := len(order) == n
	for i := 0; i < len(order) && i < n; i++ {
		if order[i] != byte(i) {
			inOrder = false
		}
	}
	symAssert(inOrder, "while handlers return without blocking, messages are processed in arrival order, also when the burst exceeds the receive queue")
}

// acknowledgements, resets and pongs are matched by the network reader itself, not behind the receive queue:
// (1) a handler that pings the peer gets its pong although it occupies the processing loop; (2) with NSTART 1, a
// handler waits in a nested request, a second request arrives before that nested request is acknowledged and its
// handler queues a nested request of its own behind NSTART - the acknowledgement still gets through
func zzC11_udp_special() {
	s := zzNewSession()
	var cc *Conn
	ended := [2]bool{}
	scenario := symChoose("scenario", 2)
	var calls [2]*zzCall
	var perr error
	cc = zzNewConn(s, zzConnCfg{midSeed: 1000, nstart: 1, maxRetrans: 4, ackTimeout: 1 << 30, handler: func(w *responsewriter.ResponseWriter[*Conn], r *pool.Message) {
		tok := r.Token()
		if len(tok) != 2 || tok[0] != 0xC0 || tok[1] > 1 {
			return
		}
		i := int(tok[1])
		if scenario == 0 {
			perr = cc.Ping(context.Background())
		} else {
			calls[i] = &zzCall{token: message.Token{0xD0, byte(i)}}
			zzDo(cc, calls[i])
		}
		_ = w.SetResponse(codes.Content, message.TextPlain, bytesReader([]byte{tok[1]}))
		ended[i] = true
	}})
	symSetNow(time.Unix(0, 1<<41))
	_ = cc.Process(nil, zzDatagram(message.Confirmable, 100, codes.GET, message.Token{0xC0, 0}, nil))
	zzWaitWritten(s, 1)
	symIdle()
	if scenario == 0 {
		symCover("ping-from-handler")
		w := s.written[0]
		symAssert(w.typ == message.Confirmable && w.code == codes.Empty, "the handler's ping is on the wire")
		_ = cc.Process(nil, zzDatagram(message.Reset, w.mid, codes.Empty, nil, nil)) // the pong
		symIdle()
		symAssert(ended[0] && perr == nil, "a ping issued from inside a handler gets its pong")
		return
	}
	symCover("two-levels-behind-nstart")
	// the nested GET of handler 0 is on the wire, unacknowledged; a second request arrives
	_ = cc.Process(nil, zzDatagram(message.Confirmable, 101, codes.GET, message.Token{0xC0, 1}, nil))
	symIdle()
	symAssert(len(s.written) == 1, "the second handler's nested request waits for the outstanding-interaction slot")
	// now the peer answers the first nested request (piggybacked)
	zzAnswer(cc, s.written[0], 0x40, 0, 1)
	symIdle()
	// ... which frees the slot: the second nested request goes out and is answered too
	for k := 1; k < len(s.written) && k < 6; k++ {
		w := s.written[k]
		if w.code == codes.GET && len(w.token) == 2 && w.token[0] == 0xD0 {
			zzAnswer(cc, w, 0x41, 0, 1)
			symIdle()
		}
	}
	symAssert(ended[0] && ended[1], "both handlers complete: the acknowledgement of the first nested request is not stuck behind the second handler")
	symAssert(calls[0] != nil && calls[0].err == nil && calls[1] != nil && calls[1].err == nil, "and both nested requests got their responses")
}

func zzC11_udp_selftest() {
	s := zzNewSession()
	handled := 0
	cc := zzNewConn(s, zzConnCfg{midSeed: 1000, handler: func(w *responsewriter.ResponseWriter[*Conn], r *pool.Message) { handled++ }})
	symSetNow(time.Unix(0, 1<<41))
	_ = cc.Process(nil, zzDatagram(message.Confirmable, 100, codes.GET, message.Token{0xC0, 0}, nil))
	symWaitUntil(func() bool { return handled > 0 })
	symAssert(handled == 0, "selftest: must fail")
}
