package client

import (
	"bytes"
	"context"
	"time"

	"github.com/plgd-dev/go-coap/v3/message"
	"github.com/plgd-dev/go-coap/v3/message/codes"
	"github.com/plgd-dev/go-coap/v3/message/pool"
	"github.com/plgd-dev/go-coap/v3/net/responsewriter"
)

func zzAck(typ message.Type, mid int32) *pool.Message {
	m := pool.NewMessage(context.Background())
	m.SetType(typ)
	m.SetMessageID(mid)
	m.SetCode(codes.Empty)
	return m
}

// C06-A — timer logic of retransmission with symbolic time: a confirmable request is registered and transmitted as
// writeMessage does, then a decided sequence of {tick at a symbolic instant, ACK, RST, caller gives up} follows.
func zzC06_retransmit() {
	s := zzNewSession()
	ackTimeout := symI64("ackTimeout")
	symAssume(ackTimeout > 0 && ackTimeout < 1<<40)
	maxRetransmit := uint32(symChoose("maxRetransmit", symParam("maxretransmit", 3)+1))
	errs := 0
	cc := zzNewConn(s, zzConnCfg{midSeed: 1000, ackTimeout: ackTimeout, maxRetrans: maxRetransmit, nstart: 1, errs: &errs})
	now := symI64("start")
	symAssume(now > 1<<40 && now < 1<<50)
	s.now = &now
	start := now
	symSetNow(time.Unix(0, now))
	req := zzRequest(message.Confirmable, -1, codes.GET, message.Token{0xA1}, symBytes("payload", 2))
	if symChoose("deadline", 2) == 1 {
		// the caller's context carries a deadline far beyond every tick of this history
		ctx, cancel := context.WithDeadline(context.Background(), time.Unix(0, 1<<62))
		defer cancel()
		req.SetContext(ctx)
		symCover("with-deadline")
	}
	req.UpsertMessageID(cc.GetMessageID())
	mid := req.MessageID()
	acked := false
	closeFn, err := cc.prepareWriteMessage(req, func(*responsewriter.ResponseWriter[*Conn], *pool.Message) { acked = true })
	symAssert(err == nil, "registration of the request succeeds")
	if err != nil {
		return
	}
	symAssert(cc.session.WriteMessage(req) == nil, "first transmission")
	over := false // the exchange has ended: ACK, RST or the caller returned
	k := symParam("events", 4)
	for i := 0; i < k; i++ {
		nt := symI64("t")
		symAssume(nt >= now && nt < 1<<52)
		now = nt
		symSetNow(time.Unix(0, now))
		before := len(s.written)
		switch symChoose("event", 4) {
		case 0:
			cc.CheckExpirations(time.Unix(0, now))
			symCover("tick")
		case 1:
			if over {
				symAssume(false)
			}
			_, pending := cc.midHandlerContainer.Load(mid)
			_ = cc.handleSpecialMessages(zzAck(message.Acknowledgement, mid))
			over = true
			symAssert(acked == pending, "an acknowledgement completes the request exactly when it is still pending (not after exhaustion)")
			symCover("ack")
		case 2:
			if over {
				symAssume(false)
			}
			_ = cc.handleSpecialMessages(zzAck(message.Reset, mid))
			over = true
			symCover("rst")
		case 3:
			if over {
				symAssume(false)
			}
			closeFn() // the call returns (cancellation or error path): writeMessage's deferred clean-up
			over = true
			symCover("return")
		}
		copies := len(s.written) - 1
		if len(s.written) > before {
			symAssert(!over, "no copy is sent after an acknowledgement, a reset or the return of the call")
			symAssert(len(s.written) == before+1, "a tick sends at most one copy")
			symAssert(uint32(copies) <= maxRetransmit, "at most MAX_RETRANSMIT further copies")
			symAssert(now-start > int64(copies)*ackTimeout, "the k-th further copy is sent no earlier than k x ACK_TIMEOUT after the first transmission")
			w := s.written[len(s.written)-1]
			f := s.written[0]
			symAssert(w.typ == f.typ && w.mid == f.mid && w.code == f.code && bytes.Equal(w.token, f.token) && bytes.Equal(w.payload, f.payload) && w.nopts == f.nopts, "every copy is identical to the first transmission")
		}
	}
	symObserve("copies", len(s.written)-1)
	symObserve("errs", errs)
	// exhaustion: after the attempts are used up the entry is gone and the error callback fired
	if !over {
		_, pending := cc.midHandlerContainer.Load(mid)
		if errs > 0 {
			symCover("exhausted")
			symAssert(!pending, "after exhaustion nothing is kept for the request")
		}
		symAssert(!acked, "exhaustion or silence never produces a successful acknowledgement")
	}
}

// C06-B — the retransmission clock of a request that had to wait for a free NSTART slot starts at its first
// transmission, not when it was queued (2 threads).
func zzC06_nstart() {
	s := zzNewSession()
	ackTimeout := symI64("ackTimeout")
	symAssume(ackTimeout > 1000 && ackTimeout < 1<<40)
	cc := zzNewConn(s, zzConnCfg{midSeed: 1000, ackTimeout: ackTimeout, maxRetrans: 4, nstart: 1})
	now := symI64("ta")
	symAssume(now > 1<<40 && now < 1<<50)
	s.now = &now
	symSetNow(time.Unix(0, now))
	// request 1 occupies the only NSTART slot
	req1 := zzRequest(message.Confirmable, -1, codes.GET, message.Token{0xA1}, nil)
	req1.UpsertMessageID(cc.GetMessageID())
	close1, err := cc.prepareWriteMessage(req1, func(*responsewriter.ResponseWriter[*Conn], *pool.Message) {})
	symAssert(err == nil, "first request registered")
	_ = cc.session.WriteMessage(req1)
	// request 2 is issued through the real write path and has to wait for the slot
	req2 := zzRequest(message.Confirmable, -1, codes.GET, message.Token{0xB1}, nil)
	done2 := false
	go func() {
		_ = cc.writeMessage(req2)
		done2 = true
	}()
	symYield()
	// time passes while request 2 is queued
	tb := symI64("tb")
	symAssume(tb >= now && tb < 1<<51)
	queuedFor := tb - now
	now = tb
	symSetNow(time.Unix(0, now))
	// request 1 is acknowledged: the slot becomes free and request 2 is transmitted (at tb)
	_ = cc.handleSpecialMessages(zzAck(message.Acknowledgement, req1.MessageID()))
	close1()
	symWaitUntil(func() bool { return len(s.written) >= 2 })
	first2 := s.written[1].at
	// a housekeeping tick shortly after the first transmission of request 2
	delta := symI64("delta")
	symAssume(delta >= 0 && delta <= ackTimeout)
	now = first2 + delta
	symSetNow(time.Unix(0, now))
	cc.CheckExpirations(time.Unix(0, now))
	symObserve("queuedFor>ack", queuedFor > ackTimeout)
	symCover("ticked")
	symAssert(len(s.written) == 2, "no copy is re-sent earlier than ACK_TIMEOUT after the request's first transmission, however long it was queued")
	// let the request finish
	for _, w := range s.written[1:2] {
		_ = cc.handleSpecialMessages(zzAck(message.Acknowledgement, w.mid))
	}
	symWaitUntil(func() bool { return done2 })
}

// C06-C — outcome of the request call under loss: the peer's acknowledgement/response gets back after a decided
// number of lost copies, or a reset arrives, or nothing ever arrives (2 threads)
func zzC06_do() {
	s := zzNewSession()
	errs := 0
	maxRetransmit := uint32(symChoose("maxRetransmit", 2) + 1)
	// the request's message ID: an ordinary one, or 0 (the counter has just wrapped) - every 16-bit value is an ID
	midSeed := []int32{1000, 32766}[symChoose("first-message-id", 2)]
	cc := zzNewConn(s, zzConnCfg{midSeed: midSeed, ackTimeout: 1 << 20, maxRetrans: maxRetransmit, nstart: 1, errs: &errs})
	now := int64(1 << 41)
	s.now = &now
	symSetNow(time.Unix(0, now))
	ctx, cancel := context.WithCancel(context.Background())
	c := &zzCall{token: message.Token{0xA1, 0xA2}}
	go func() {
		req := pool.NewMessage(ctx)
		req.SetCode(codes.GET)
		req.SetToken(c.token)
		_ = req.SetPath("/a")
		c.resp, c.err = cc.Do(req)
		if c.err == nil && c.resp != nil {
			c.body, _ = c.resp.ReadBody()
		}
		c.done = true
	}()
	zzWaitWritten(s, 1)
	if midSeed == 32766 {
		symAssert(s.written[0].mid == 0, "the wrapped counter yields message ID 0")
		symCover("message-id-0")
	}
	// some copies are lost: housekeeping ticks spaced by more than the (growing) timeout
	lost := symChoose("lost", 4)
	for i := 0; i < lost; i++ {
		now += 1 << 24
		symSetNow(time.Unix(0, now))
		cc.CheckExpirations(time.Unix(0, now))
	}
	copies := len(s.written)
	symAssert(uint32(copies) <= 1+maxRetransmit, "at most 1+MAX_RETRANSMIT transmissions")
	exhausted := uint32(lost) > maxRetransmit
	tag := symU8("tag")
	switch symChoose("outcome", 3) {
	case 0: // a copy reached the peer and its piggybacked response gets back
		zzAnswer(cc, s.written[copies-1], tag, 0, 1)
		if !exhausted {
			symCover("answered")
			symWaitUntil(func() bool { return c.done })
			symAssert(c.err == nil && len(c.body) == 1 && c.body[0] == tag, "a response that gets back before the attempts are exhausted makes the call succeed with it")
		} else {
			symCover("answered-too-late")
		}
	case 1: // reset
		_ = cc.Process(nil, zzDatagram(message.Reset, s.written[0].mid, codes.Empty, nil, nil))
		symCover("reset")
	case 2:
		symCover("silence")
	}
	before := len(s.written)
	now += 1 << 30
	symSetNow(time.Unix(0, now))
	cc.CheckExpirations(time.Unix(0, now))
	if c.done || exhausted {
		symAssert(len(s.written) == before, "no copy after the call returned or after the attempts are exhausted")
	}
	if !c.done {
		cancel()
		symWaitUntil(func() bool { return c.done })
		symAssert(c.err != nil, "exhaustion, a reset or silence never produces a successful response")
	}
	after := len(s.written)
	now += 1 << 30
	symSetNow(time.Unix(0, now))
	cc.CheckExpirations(time.Unix(0, now))
	symAssert(len(s.written) == after, "no copy after the return of the call")
	symAssert(cc.midHandlerContainer.Length() == 0 && cc.tokenHandlerContainer.Length() == 0, "nothing is retained for the request")
}

// a second confirmable request whose caller preset the message ID of a request that is still unacknowledged is
// refused - and the refusal leaves the outstanding request's retransmission state alone: it is still retransmitted,
// and the acknowledgement that then arrives completes it
func zzC06_mid_collision() {
	s := zzNewSession()
	cc := zzNewConn(s, zzConnCfg{midSeed: 1000, nstart: 2, maxRetrans: 4, ackTimeout: 1000})
	now := int64(1 << 41)
	symSetNow(time.Unix(0, now))
	a := &zzCall{token: message.Token{0xA1}}
	go zzDo(cc, a)
	zzWaitWritten(s, 1)
	symIdle()
	mid := s.written[0].mid
	oneWay := symChoose("colliding-operation", 2) == 1
	bdone := false
	var berr error
	go func() {
		req := pool.NewMessage(context.Background())
		req.SetCode(codes.GET)
		req.SetToken(message.Token{0xB1})
		req.SetType(message.Confirmable)
		req.SetMessageID(mid)
		_ = req.SetPath("/b")
		if oneWay {
			berr = cc.WriteMessage(req)
		} else {
			_, berr = cc.Do(req)
		}
		bdone = true
	}()
	symWaitUntil(func() bool { return bdone })
	symIdle()
	symAssert(berr != nil, "a confirmable message whose ID is already in flight is refused")
	symAssert(!a.done, "the outstanding request is still waiting")
	symCover("collision-refused")
	// the outstanding request is still retransmitted ...
	base := len(s.written)
	now += 5000
	symSetNow(time.Unix(0, now))
	cc.CheckExpirations(time.Unix(0, now))
	retrans := 0
	for _, w := range s.written[base:] {
		if w.mid == mid && len(w.token) == 1 && w.token[0] == 0xA1 {
			retrans++
		}
	}
	symAssert(retrans == 1, "the outstanding request is still retransmitted after the refusal")
	// ... and still completed by its acknowledgement
	zzAnswer(cc, s.written[0], 9, 0, 1)
	symWaitUntil(func() bool { return a.done })
	symAssert(a.err == nil && len(a.body) == 1 && a.body[0] == 9, "and its acknowledgement still completes it")
	symIdle()
	// nothing of the refused request is left behind
	symAssert(cc.midHandlerContainer.Length() == 0 && cc.tokenHandlerContainer.Length() == 0, "no continuation of the refused or of the completed request is retained")
	symAssert(cc.numOutstandingInteraction.TryAcquire(1<<63-1), "the refused request holds no outstanding-interaction slot")
}

// C13 view of the same history
func zzC13_mid_collision() { zzC06_mid_collision() }

// two confirmable requests are unacknowledged at once (NSTART 2) - one with a payload, one without - and fall due
// in the same housekeeping tick: each retransmitted copy is identical to the first copy of its own request
func zzC06_two_pending() {
	s := zzNewSession()
	cc := zzNewConn(s, zzConnCfg{midSeed: 1000, nstart: 2, maxRetrans: 4, ackTimeout: 1000})
	now := int64(1 << 41)
	symSetNow(time.Unix(0, now))
	pay := symBytes("payload", 3)
	withBodyFirst := symChoose("request-with-payload-first", 2) == 1
	// the caller may have read the body (logging, a previous attempt) before submitting the request
	bodyAlreadyRead := symChoose("body-reader-at-end", 2) == 1
	mk := func(body bool, tok byte) {
		req := pool.NewMessage(context.Background())
		req.SetToken(message.Token{tok})
		_ = req.SetPath("/a")
		if body {
			req.SetCode(codes.POST)
			req.SetContentFormat(message.AppOctets)
			req.SetBody(bytesReader(pay))
			if bodyAlreadyRead {
				_, _ = req.Body().Seek(0, 2) // io.SeekEnd
				symCover("body-reader-at-end")
			}
		} else {
			req.SetCode(codes.GET)
		}
		_, _ = cc.Do(req)
	}
	go mk(withBodyFirst, 0xA1)
	zzWaitWritten(s, 1)
	symIdle()
	go mk(!withBodyFirst, 0xB1)
	zzWaitWritten(s, 2)
	symIdle()
	first := append([]zzWritten(nil), s.written...)
	now += 5000
	symSetNow(time.Unix(0, now))
	cc.CheckExpirations(time.Unix(0, now))
	symAssert(len(s.written) == 4, "both unacknowledged requests are retransmitted in the tick in which they fall due")
	for _, w := range first {
		if w.code == codes.POST {
			symAssert(bytes.Equal(w.payload, pay), "the first copy carries the whole payload wherever the body reader stood")
		}
	}
	symCover("both-retransmitted")
	for _, w := range s.written[2:] {
		var orig *zzWritten
		for k := range first {
			if first[k].mid == w.mid {
				orig = &first[k]
			}
		}
		symAssert(orig != nil, "a retransmission carries the message ID of a pending request")
		if orig != nil {
			symAssert(w.code == orig.code && w.typ == orig.typ && bytes.Equal(w.token, orig.token) && bytes.Equal(w.payload, orig.payload) && w.nopts == orig.nopts && w.cf == orig.cf, "every retransmitted copy is identical to the first copy of its own request")
		}
	}
	_ = cc.Close()
	symIdle()
}

// the first transmission fails at the socket (no buffer space, a secured session's write error): the call reports
// the error - and that is the end of the request: no copy is sent by later housekeeping ticks, its slot is free
func zzC06_write_fails() {
	s := zzNewSession()
	cc := zzNewConn(s, zzConnCfg{midSeed: 1000, ackTimeout: 1 << 20, maxRetrans: 2, nstart: 1})
	now := int64(1 << 41)
	s.now = &now
	symSetNow(time.Unix(0, now))
	s.failWrites = 1
	req := pool.NewMessage(context.Background())
	req.SetCode(codes.POST)
	req.SetType(message.Confirmable)
	req.SetToken(message.Token{0xA1})
	_ = req.SetPath("/a")
	var err error
	if symChoose("one-way", 2) == 1 {
		err = cc.WriteMessage(req)
	} else {
		_, err = cc.Do(req)
	}
	symCover("first-write-failed")
	symAssert(err != nil, "a failed first transmission is reported to the caller")
	for i := 0; i < 3; i++ {
		now += 1 << 24
		symSetNow(time.Unix(0, now))
		cc.CheckExpirations(time.Unix(0, now))
	}
	symAssert(len(s.written) == 0, "no copy after the return of the call")
	symAssert(cc.midHandlerContainer.Length() == 0 && cc.tokenHandlerContainer.Length() == 0, "nothing is retained for the request")
	symAssert(cc.numOutstandingInteraction.TryAcquire(1<<63-1), "the failed request holds no outstanding-interaction slot")
}

func zzC13_write_fails() { zzC06_write_fails() }

func zzC06_selftest() {
	s := zzNewSession()
	cc := zzNewConn(s, zzConnCfg{midSeed: 1000, ackTimeout: 1000, maxRetrans: 2, nstart: 1})
	symSetNow(time.Unix(0, 1<<41))
	req := zzRequest(message.Confirmable, 5, codes.GET, message.Token{0xA1}, nil)
	_, _ = cc.prepareWriteMessage(req, func(*responsewriter.ResponseWriter[*Conn], *pool.Message) {})
	_ = cc.session.WriteMessage(req)
	cc.CheckExpirations(time.Unix(0, symI64("now")))
	symAssert(len(s.written) == 1, "selftest: must fail (a late tick retransmits)")
}
