package client

import (
	"context"
	"time"

	"github.com/plgd-dev/go-coap/v3/message"
	"github.com/plgd-dev/go-coap/v3/message/codes"
	"github.com/plgd-dev/go-coap/v3/message/pool"
	"github.com/plgd-dev/go-coap/v3/udp/coder"
)

// C13 — after a decided history of exchanges, each ending in a decided outcome, followed by a housekeeping tick
// beyond every deadline, the connection retains nothing for them.


// one exchange; returns when it has ended
func zzExchange(cc *Conn, s *zzSession, kind int, tok byte, now *int64) {
	base := len(s.written)
	switch kind {
	case 0: // request answered (piggybacked)
		c := &zzCall{token: message.Token{tok, 1}}
		go zzDo(cc, c)
		zzWaitWritten(s, base+1)
		zzAnswer(cc, s.written[base], tok, 0, 1)
		symWaitUntil(func() bool { return c.done })
		symAssert(c.err == nil, "answered request succeeds")
		symCover("answered")
	case 1: // request answered by empty ACK + separate response
		c := &zzCall{token: message.Token{tok, 2}}
		go zzDo(cc, c)
		zzWaitWritten(s, base+1)
		zzAnswer(cc, s.written[base], tok, 1, 1)
		symWaitUntil(func() bool { return c.done })
		symAssert(c.err == nil, "separately answered request succeeds")
		symCover("separate")
	case 2: // request cancelled while waiting for the acknowledgement
		ctx, cancel := context.WithCancel(context.Background())
		c := &zzCall{token: message.Token{tok, 3}}
		go func() {
			req := pool.NewMessage(ctx)
			req.SetCode(codes.GET)
			req.SetToken(c.token)
			_ = req.SetPath("/a")
			c.resp, c.err = cc.Do(req)
			c.done = true
		}()
		zzWaitWritten(s, base+1)
		cancel()
		symWaitUntil(func() bool { return c.done })
		symAssert(c.err != nil, "cancelled request returns an error")
		symCover("cancelled")
	case 3: // request acknowledged, then cancelled while waiting for the separate response that never comes
		ctx, cancel := context.WithCancel(context.Background())
		c := &zzCall{token: message.Token{tok, 4}}
		go func() {
			req := pool.NewMessage(ctx)
			req.SetCode(codes.GET)
			req.SetToken(c.token)
			_ = req.SetPath("/a")
			c.resp, c.err = cc.Do(req)
			c.done = true
		}()
		zzWaitWritten(s, base+1)
		_ = cc.Process(nil, zzDatagram(message.Acknowledgement, s.written[base].mid, codes.Empty, nil, nil))
		symYield()
		cancel()
		symWaitUntil(func() bool { return c.done })
		symAssert(c.err != nil, "request without response returns an error on cancellation")
		symCover("acked-then-cancelled")
	case 4: // one-way non-confirmable write
		m := zzRequest(message.NonConfirmable, -1, codes.POST, message.Token{tok, 5}, []byte{1})
		symAssert(cc.WriteMessage(m) == nil, "one-way write succeeds")
		symCover("one-way")
	case 5: // ping answered, or given up
		pong := false
		cancelPing, err := cc.AsyncPing(func() { pong = true })
		symAssert(err == nil, "ping is sent")
		if err != nil {
			return
		}
		if symChoose("pong", 2) == 0 {
			_ = cc.Process(nil, zzDatagram(message.Reset, s.written[base].mid, codes.Empty, nil, nil))
			symAssert(pong, "pong is reported")
		}
		cancelPing()
		symCover("ping")
	case 7: // observe registration, rejected by the peer (4.04) or accepted and then cancelled
		tokO := message.Token{tok, 7}
		accept := symChoose("observe-accepted", 2) == 1
		var obs interface {
			Cancel(ctx context.Context, opts ...message.Option) error
		}
		var oerr error
		odone := false
		go func() {
			req := pool.NewMessage(context.Background())
			req.SetCode(codes.GET)
			req.SetToken(tokO)
			_ = req.SetPath("/obs")
			req.SetObserve(0)
			o, err := cc.DoObserve(req, func(n *pool.Message) {})
			if err == nil {
				obs = o
			}
			oerr = err
			odone = true
		}()
		zzWaitWritten(s, base+1)
		code := codes.NotFound
		if accept {
			code = codes.Content
		}
		resp := zzRequest(message.Acknowledgement, s.written[base].mid, code, tokO, []byte{1})
		if accept {
			resp.SetObserve(5)
		}
		b, _ := resp.MarshalWithEncoder(coder.DefaultCoder)
		_ = cc.Process(nil, append([]byte(nil), b...))
		symWaitUntil(func() bool { return odone })
		if accept {
			symAssert(oerr == nil && obs != nil, "accepted registration succeeds")
			if obs != nil {
				cdone := false
				go func() { _ = obs.Cancel(context.Background()); cdone = true }()
				zzWaitWritten(s, base+2)
				zzAnswer(cc, s.written[base+1], 1, 0, 1)
				symWaitUntil(func() bool { return cdone })
			}
			symCover("observe-cancelled")
		} else {
			symAssert(oerr != nil, "rejected registration fails")
			symCover("observe-rejected")
		}
		_, still := cc.observationHandler.GetObservation(tokO.Hash())
		symAssert(!still, "no observation entry is retained after a rejected registration or a completed cancellation")
	case 6: // peer silent: the request is retransmitted until the attempts are exhausted, then the caller gives up
		ctx, cancel := context.WithCancel(context.Background())
		c := &zzCall{token: message.Token{tok, 6}}
		go func() {
			req := pool.NewMessage(ctx)
			req.SetCode(codes.GET)
			req.SetToken(c.token)
			_ = req.SetPath("/a")
			c.resp, c.err = cc.Do(req)
			c.done = true
		}()
		zzWaitWritten(s, base+1)
		for i := 0; i < 4; i++ {
			*now += 1 << 36
			symSetNow(time.Unix(0, *now))
			cc.CheckExpirations(time.Unix(0, *now))
		}
		cancel()
		symWaitUntil(func() bool { return c.done })
		symAssert(c.err != nil, "unanswered request fails")
		symCover("silent")
	}
}

func zzC13_history() {
	s := zzNewSession()
	cc := zzNewConn(s, zzConnCfg{midSeed: 1000, nstart: 2, maxRetrans: 2, ackTimeout: 1 << 30})
	now := int64(1 << 41)
	symSetNow(time.Unix(0, now))
	n := symParam("exchanges", 2)
	for i := 0; i < n; i++ {
		zzExchange(cc, s, symChoose("kind", 8), byte(0xA0+i), &now)
	}
	// an incoming request is handled too (reply cache, per-ID lock)
	cc.ProcessReceivedMessage(zzRequest(message.Confirmable, 77, codes.GET, message.Token{0x77}, nil))
	// housekeeping far beyond every deadline
	now += int64(300 * time.Second)
	symSetNow(time.Unix(0, now))
	cc.CheckExpirations(time.Unix(0, now))
	symCover("ticked")
	symAssert(cc.tokenHandlerContainer.Length() == 0, "no waiting token continuation is retained")
	symAssert(cc.midHandlerContainer.Length() == 0, "no waiting message-ID continuation is retained")
	symAssert(len(cc.msgIDMutex.ma) == 0, "no per-ID lock is retained")
	if mc, ok := cc.responseMsgCache.(*messageCache); ok {
		symAssert(mc.c.Length() == 0, "cached replies disappear after the exchange lifetime")
	}
	_, obs := cc.observationHandler.GetObservation(message.Token{0xA0, 1}.Hash())
	symAssert(!obs, "no observation entry is retained")
	symAssert(cc.numOutstandingInteraction.TryAcquire(1<<63-1), "no outstanding-interaction slot is retained")
}

// a confirmable request that is queued behind NSTART (an earlier one is unanswered) and gives up there - cancelled,
// or the connection's outstanding request ends first - leaves nothing behind, and nothing of it is ever sent later
func zzC13_nstart_cancel() {
	s := zzNewSession()
	cc := zzNewConn(s, zzConnCfg{midSeed: 1000, nstart: 1, maxRetrans: 2, ackTimeout: 1 << 30})
	now := int64(1 << 41)
	symSetNow(time.Unix(0, now))
	blocker := &zzCall{token: message.Token{0xBB}}
	go zzDo(cc, blocker)
	zzWaitWritten(s, 1)
	symIdle()
	ctx, cancel := context.WithCancel(context.Background())
	q := &zzCall{token: message.Token{0xA1}}
	oneWay := symChoose("queued-operation", 2) == 1 // 0: Do, 1: confirmable one-way write
	go func() {
		req := pool.NewMessage(ctx)
		req.SetCode(codes.GET)
		req.SetToken(q.token)
		req.SetType(message.Confirmable)
		_ = req.SetPath("/a")
		if oneWay {
			q.err = cc.WriteMessage(req)
		} else {
			q.resp, q.err = cc.Do(req)
		}
		q.done = true
	}()
	symIdle()
	symAssert(!q.done && len(s.written) == 1, "the second request waits for the outstanding-interaction slot")
	cancel()
	symWaitUntil(func() bool { return q.done })
	symAssert(q.err != nil, "the cancelled request returns an error")
	symCover("cancelled-while-queued")
	// the first request is answered; then housekeeping far beyond every deadline
	zzAnswer(cc, s.written[0], 1, 0, 1)
	symWaitUntil(func() bool { return blocker.done })
	base := len(s.written)
	for k := 0; k < 3; k++ {
		now += int64(100 * time.Second)
		symSetNow(time.Unix(0, now))
		cc.CheckExpirations(time.Unix(0, now))
	}
	symAssert(len(s.written) == base, "nothing of the request that gave up is transmitted afterwards")
	symAssert(cc.tokenHandlerContainer.Length() == 0, "no waiting token continuation is retained")
	symAssert(cc.midHandlerContainer.Length() == 0, "no waiting message-ID continuation is retained")
	symAssert(cc.numOutstandingInteraction.TryAcquire(1<<63-1), "no outstanding-interaction slot is retained")
	symCover("ticked")
}

func zzC13_selftest() {
	s := zzNewSession()
	cc := zzNewConn(s, zzConnCfg{midSeed: 1000, nstart: 2, maxRetrans: 2, ackTimeout: 1 << 30})
	symSetNow(time.Unix(0, 1<<41))
	cc.ProcessReceivedMessage(zzRequest(message.Confirmable, 77, codes.GET, message.Token{0x77}, nil))
	if mc, ok := cc.responseMsgCache.(*messageCache); ok {
		symAssert(mc.c.Length() == 0, "selftest: must fail (the reply is cached before the lifetime elapsed)")
	}
}
