package client

import (
	"context"
	"time"

	"github.com/plgd-dev/go-coap/v3/message"
	"github.com/plgd-dev/go-coap/v3/message/codes"
	"github.com/plgd-dev/go-coap/v3/message/pool"
)

// C16 wiring on the datagram connection: the connection's configured total / per-endpoint limits are the ones that
// govern its requests (NSTART high enough not to interfere)
func zzC16_udp_wiring() {
	total := int64(1 + symChoose("total", 2))
	perEP := int64(1 + symChoose("per-endpoint", 2))
	s := zzNewSession()
	cc := zzNewConn(s, zzConnCfg{midSeed: 1000, nstart: 4, maxRetrans: 4, ackTimeout: 1 << 30, limit: total, eplimit: perEP})
	symSetNow(time.Unix(0, 1<<41))
	samePath := symChoose("same-path", 2) == 1
	calls := []*zzCall{{token: message.Token{0xA1}}, {token: message.Token{0xB1}}}
	paths := []string{"/a", "/b"}
	if samePath {
		paths[1] = "/a"
	}
	for i, c := range calls {
		c := c
		path := paths[i]
		go func() {
			req := pool.NewMessage(context.Background())
			req.SetCode(codes.GET)
			req.SetToken(c.token)
			_ = req.SetPath(path)
			c.resp, c.err = cc.Do(req)
			c.done = true
		}()
	}
	symIdle()
	allowed := 2
	if total == 1 || (samePath && perEP == 1) {
		allowed = 1
	}
	symAssert(len(s.written) == allowed, "requests in flight on the connection are bounded by the configured total limit and, per path, by the per-endpoint limit - and not bounded more than that")
	symCover("limited")
	for k := 0; k < 2; k++ {
		if k < len(s.written) {
			zzAnswer(cc, s.written[k], 1, 0, 1)
			symIdle()
		}
	}
	symAssert(calls[0].done && calls[1].done && calls[0].err == nil && calls[1].err == nil, "both requests complete once answered")
}

// the deregistration request that Observation.Cancel sends is a client request like any other: with a total limit
// of 1 it waits while another request is in flight
func zzC16_udp_cancel_wiring() {
	s := zzNewSession()
	cc := zzNewConn(s, zzConnCfg{midSeed: 1000, nstart: 4, maxRetrans: 4, ackTimeout: 1 << 30, limit: 1, eplimit: 1})
	symSetNow(time.Unix(0, 1<<41))
	obs := zzRegisterObservation(cc, s, message.Token{0x0B, 0x5E})
	symAssert(obs != nil, "the observation is registered")
	if obs == nil {
		return
	}
	base := len(s.written)
	a := &zzCall{token: message.Token{0xA1}}
	go zzDo(cc, a)
	zzWaitWritten(s, base+1)
	symIdle()
	cdone := false
	go func() {
		_ = obs.Cancel(context.Background())
		cdone = true
	}()
	symIdle()
	symAssert(len(s.written) == base+1 && !cdone, "with a total limit of 1 the cancellation's request waits while another request is in flight")
	symCover("cancel-waits")
	zzAnswer(cc, s.written[base], 1, 0, 1)
	symWaitUntil(func() bool { return a.done })
	zzWaitWritten(s, base+2)
	zzAnswer(cc, s.written[base+1], 2, 0, 1)
	symWaitUntil(func() bool { return cdone })
}
