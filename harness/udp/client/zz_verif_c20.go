package client

import (
	"time"

	"github.com/plgd-dev/go-coap/v3/message"
	"github.com/plgd-dev/go-coap/v3/message/codes"
	"github.com/plgd-dev/go-coap/v3/message/pool"
	"github.com/plgd-dev/go-coap/v3/net/responsewriter"
)

func zzC20rfc(code uint8, v uint32) bool {
	switch code >> 5 {
	case 2:
		return v&2 != 0
	case 4:
		return v&8 != 0
	case 5:
		return v&16 != 0
	}
	return false
}

// C20 at connection level: a suppressed response is never put on the wire (a confirmable request still gets its
// bare acknowledgement); a response of a class that was not suppressed is never dropped.
func zzC20_wire() {
	s := zzNewSession()
	code := symU8("respcode")
	symAssume(code >= 0x41 && code <= 0xbf)
	refused := false
	cc := zzNewConn(s, zzConnCfg{midSeed: 1000, handler: func(w *responsewriter.ResponseWriter[*Conn], r *pool.Message) {
		refused = w.SetResponse(codes.Code(code), message.TextPlain, bytesReader([]byte{1})) != nil
	}})
	symSetNow(time.Unix(0, 1<<41))
	con := symChoose("type", 2) == 0
	typ := message.NonConfirmable
	if con {
		typ = message.Confirmable
	}
	v := symU8("noresponse")
	// the request method: one of the four of RFC 7252, FETCH / PATCH / iPATCH of RFC 8132, or an unassigned 0.xx
	method := []codes.Code{codes.GET, codes.POST, codes.PUT, codes.DELETE, 5, 6, 7, 0x1f}[symChoose("method", 8)]
	req := zzRequest(typ, 7, method, message.Token{0xA1}, nil)
	present := symChoose("option", 2) == 0
	if present {
		req.SetOptionUint32(message.NoResponse, uint32(v))
	}
	cc.ProcessReceivedMessage(req)
	suppressed := present && zzC20rfc(code, uint32(v))
	symObserve("refused", refused)
	symObserve("written", len(s.written))
	if suppressed {
		symCover("suppressed")
		symAssert(refused, "the handler's attempt to set a suppressed response is refused")
		if con {
			symAssert(len(s.written) == 1 && s.written[0].code == codes.Empty && s.written[0].typ == message.Acknowledgement && s.written[0].mid == 7, "a confirmable request whose response is suppressed still gets its bare acknowledgement")
		} else {
			symAssert(len(s.written) == 0, "a suppressed response to a non-confirmable request is never put on the wire")
		}
	} else {
		symCover("wanted")
		symAssert(!refused, "a response of a class that was not suppressed is accepted")
		symAssert(len(s.written) == 1 && uint8(s.written[0].code) == code, "and is put on the wire with its code")
	}
}
