package client

import (
	"bytes"
	"context"
	"time"

	"github.com/plgd-dev/go-coap/v3/message"
	"github.com/plgd-dev/go-coap/v3/message/codes"
	"github.com/plgd-dev/go-coap/v3/message/pool"
	"github.com/plgd-dev/go-coap/v3/net/responsewriter"
	"github.com/plgd-dev/go-coap/v3/udp/coder"
)

// C12 with block-wise transfer enabled on the real connection (ghost ownership state on, recycling pool).

func zzIncoming(cc *Conn, mid int32, code codes.Code, tok message.Token, payload []byte, opt message.OptionID, optVal int64) {
	req := cc.AcquireMessage(cc.Context())
	req.SetType(message.Confirmable)
	req.SetMessageID(mid)
	req.SetCode(code)
	req.SetToken(tok)
	_ = req.SetPath("/big")
	if len(payload) > 0 {
		req.SetContentFormat(message.AppOctets)
		req.SetBody(bytesReader(payload))
	}
	if optVal >= 0 {
		req.SetOptionUint32(opt, uint32(optVal))
	}
	cc.ProcessReceivedMessage(req)
}

// responder role: a decided sequence of incoming requests drives the block-wise layer through its normal and its
// error paths (restart of a transfer whose token is still cached, continuation, unknown continuation, uploads in
// and out of order), then a housekeeping tick beyond every deadline sweeps what is cached.
func zzC12_blockwise_server() {
	symGhost(true)
	s := zzNewSession()
	uploads := 0
	cc := zzNewConn(s, zzConnCfg{midSeed: 1000, poolSize: 1024, blockwise: true, handler: func(w *responsewriter.ResponseWriter[*Conn], r *pool.Message) {
		symAssert(!symReleased(r), "the request is owned by the handler while it runs")
		if r.Code() == codes.GET {
			_ = w.SetResponse(codes.Content, message.TextPlain, bytesReader(zzBigBody(40, 0x30)))
			return
		}
		uploads++
		_ = w.SetResponse(codes.Changed, message.TextPlain, bytesReader([]byte{1}))
	}})
	now := int64(1 << 41)
	symSetNow(time.Unix(0, now))
	tok := message.Token{0xA1}
	n := symParam("steps", 2)
	for i := 0; i < n; i++ {
		mid := int32(10 + i)
		base := len(s.written)
		switch symChoose("incoming", 6) {
		case 0: // initial GET of a resource bigger than a block
			zzIncoming(cc, mid, codes.GET, tok, nil, 0, -1)
			symAssert(len(s.written) == base+1, "the GET is answered")
			if len(s.written) == base+1 {
				w := s.written[base]
				symAssert(w.code == codes.Content && len(w.payload) == 16 || w.code == codes.RequestEntityIncomplete,
					"the reply is the first block of the body, or 4.08 when a transfer with this token is still in progress")
				if w.code == codes.RequestEntityIncomplete {
					symCover("restart-refused")
				}
			}
		case 1: // continuation: next block
			zzIncoming(cc, mid, codes.GET, tok, nil, message.Block2, int64(zzBlockOpt(1, false)))
		case 2: // continuation with a token nobody knows
			zzIncoming(cc, mid, codes.GET, message.Token{0xA2}, nil, message.Block2, int64(zzBlockOpt(1, false)))
		case 3: // first block of an upload
			zzIncoming(cc, mid, codes.PUT, tok, zzBigBody(16, 0x50), message.Block1, int64(zzBlockOpt(0, true)))
		case 4: // last block of an upload
			zzIncoming(cc, mid, codes.PUT, tok, zzBigBody(4, 0x60), message.Block1, int64(zzBlockOpt(1, false)))
		case 5: // housekeeping in the middle
			now += int64(10 * time.Second)
			symSetNow(time.Unix(0, now))
			cc.CheckExpirations(time.Unix(0, now))
		}
		for _, w := range s.written[base:] {
			symAssert(w.code != codes.Empty || w.typ != message.Acknowledgement || len(w.token) == 0, "a reply put on the wire was not wiped by an early release")
		}
	}
	now += int64(300 * time.Second)
	symSetNow(time.Unix(0, now))
	cc.CheckExpirations(time.Unix(0, now))
	// whatever is acquired next is owned exclusively
	a, b := cc.AcquireMessage(cc.Context()), cc.AcquireMessage(cc.Context())
	symAssert(a != b, "the pool never hands one message to two owners")
	symCover("swept")
}

// requester role: a body bigger than a block is uploaded, or downloaded, with the peer failing at a decided point;
// the response handed to the caller stays intact while later traffic and housekeeping run.
func zzC12_blockwise_client() {
	symGhost(true)
	s := zzNewSession()
	cc := zzNewConn(s, zzConnCfg{midSeed: 1000, nstart: 2, maxRetrans: 4, poolSize: 1024, blockwise: true})
	now := int64(1 << 41)
	symSetNow(time.Unix(0, now))
	upload := symChoose("upload", 2) == 1
	tok := message.Token{0xB1, 0xB2}
	c := &zzCall{token: tok}
	var held *pool.Message // the request the application passed to Do: its own until Do returns and it releases it
	go func() {
		req := cc.AcquireMessage(context.Background())
		held = req
		req.SetToken(tok)
		_ = req.SetPath("/big")
		if upload {
			req.SetCode(codes.PUT)
			req.SetContentFormat(message.AppOctets)
			req.SetBody(bytesReader(zzBigBody(40, 0x10)))
		} else {
			req.SetCode(codes.GET)
		}
		c.resp, c.err = cc.Do(req)
		if c.err == nil && c.resp != nil {
			c.tok = append([]byte(nil), c.resp.Token()...)
			c.body, _ = c.resp.ReadBody()
		}
		symAssert(!symReleased(req) && bytes.Equal(req.Token(), tok), "the request passed to Do is still the application's when Do returns")
		cc.ReleaseMessage(req)
		c.done = true
	}()
	reply := func(w zzWritten, code codes.Code, payload []byte, opt message.OptionID, optVal int64, etag []byte) {
		m := zzRequest(message.Acknowledgement, w.mid, code, w.token, payload)
		if optVal >= 0 {
			m.SetOptionUint32(opt, uint32(optVal))
		}
		if etag != nil {
			_ = m.SetETag(etag)
		}
		d, _ := m.MarshalWithEncoder(coder.DefaultCoder)
		_ = cc.Process(nil, append([]byte(nil), d...))
	}
	failAt := symChoose("fail-at", 4) // 3: no failure
	full := zzBigBody(40, 0x70)
	for round := 0; round < 3 && !c.done; round++ {
		zzWaitWritten(s, round+1)
		w := s.written[round]
		if round == failAt {
			switch symChoose("failure", 3) {
			case 0:
				reply(w, codes.RequestEntityIncomplete, nil, 0, -1, nil)
			case 1: // a block nobody asked for
				reply(w, codes.Content, full[0:16], message.Block2, int64(zzBlockOpt(7, true)), []byte{1, 2})
			case 2: // representation changed
				reply(w, codes.Content, full[0:16], message.Block2, int64(zzBlockOpt(int64(round), true)), []byte{9, 9})
			}
			symCover("peer-failed")
			break
		}
		if upload {
			if round < 2 {
				reply(w, codes.Continue, nil, message.Block1, int64(zzBlockOpt(int64(round), true)), nil)
			} else {
				reply(w, codes.Changed, []byte{0x77}, message.Block1, int64(zzBlockOpt(2, false)), nil)
			}
		} else {
			lo, hi := 16*round, 16*round+16
			if hi > 40 {
				hi = 40
			}
			reply(w, codes.Content, full[lo:hi], message.Block2, int64(zzBlockOpt(int64(round), round < 2)), []byte{1, 2})
		}
		symIdle()
	}
	if failAt < 3 {
		// the exchange may hang on a reply that can never complete it: give up by closing the transfer window
		for k := 0; k < 6 && !c.done; k++ {
			now += int64(3 * time.Second)
			symSetNow(time.Unix(0, now))
			cc.CheckExpirations(time.Unix(0, now))
			symIdle()
			if !c.done && held != nil {
				symAssert(!symReleased(held), "housekeeping during a pending transfer does not recycle the request the application holds")
				symCover("swept-while-pending")
			}
		}
	}
	if !c.done {
		symCover("still-waiting")
		return
	}
	symCover("returned")
	if c.err == nil && c.resp != nil {
		symCover("response-held")
		// later traffic and housekeeping while the application holds the response
		cc.ProcessReceivedMessage(zzRequest(message.Confirmable, 77, codes.GET, message.Token{0x77}, nil))
		now += int64(300 * time.Second)
		symSetNow(time.Unix(0, now))
		cc.CheckExpirations(time.Unix(0, now))
		x := cc.AcquireMessage(cc.Context())
		x.SetCode(codes.NotFound)
		x.SetToken(message.Token{0xEE})
		symAssert(!symReleased(c.resp), "the response returned from Do is not recycled while the application holds it")
		b2, _ := c.resp.ReadBody()
		symAssert(bytes.Equal(c.resp.Token(), c.tok) && bytes.Equal(b2, c.body), "and keeps its content")
		if failAt == 3 && !upload {
			symAssert(bytes.Equal(c.body, full), "the downloaded body is the body the peer sent")
		}
		cc.ReleaseMessage(x)
		cc.ReleaseMessage(c.resp)
	}
}

// a block-wise upload is cancelled by its caller at the very moment the peer's 2.31 Continue is being processed; the
// caller releases its request as soon as Do has returned: the library does not touch the request after that
func zzC12_blockwise_cancel_race() {
	symGhost(true)
	s := zzNewSession()
	cc := zzNewConn(s, zzConnCfg{midSeed: 1000, nstart: 2, maxRetrans: 4, poolSize: 1024, blockwise: true})
	symSetNow(time.Unix(0, 1<<41))
	ctx, cancel := context.WithCancel(context.Background())
	tok := message.Token{0xB1, 0xB2}
	done := false
	go func() {
		req := cc.AcquireMessage(ctx)
		req.SetToken(tok)
		_ = req.SetPath("/big")
		req.SetCode(codes.PUT)
		req.SetContentFormat(message.AppOctets)
		req.SetBody(bytesReader(zzBigBody(40, 0x10)))
		resp, err := cc.Do(req)
		if err == nil && resp != nil {
			cc.ReleaseMessage(resp)
		}
		cc.ReleaseMessage(req) // Do has returned: the request is the application's again and goes back to the pool
		done = true
	}()
	zzWaitWritten(s, 1)
	symIdle()
	w := s.written[0]
	m := zzRequest(message.Acknowledgement, w.mid, codes.Continue, w.token, nil)
	m.SetOptionUint32(message.Block1, zzBlockOpt(0, true))
	d, _ := m.MarshalWithEncoder(coder.DefaultCoder)
	_ = cc.Process(nil, append([]byte(nil), d...)) // handed to the receive loop ...
	cancel()                                        // ... while the caller gives up
	symWaitUntil(func() bool { return done })
	symIdle()
	symCover("cancelled-during-continue")
	x, y := cc.AcquireMessage(cc.Context()), cc.AcquireMessage(cc.Context())
	symAssert(x != y, "the pool never hands one message to two owners")
}
