package client

import (
	"time"

	"github.com/plgd-dev/go-coap/v3/message"
	"github.com/plgd-dev/go-coap/v3/message/codes"
	"github.com/plgd-dev/go-coap/v3/net/monitor/inactivity"
)

// C18, the wiring on the datagram connection: *every* message received from the peer counts as activity - a
// request, the peer's ping (empty confirmable), a stray empty ACK or RST, a response nobody waits for - and the
// monitor closes at the first tick after a full period without any.
func zzC18_udp_wiring() {
	s := zzNewSession()
	const period = int64(10 * time.Second)
	closed := 0
	t0 := int64(1 << 41)
	symSetNow(time.Unix(0, t0))
	mon := inactivity.New(time.Duration(period), func(cc *Conn) {
		closed++
		_ = cc.Close()
	})
	cc := zzNewConn(s, zzConnCfg{midSeed: 1000, monitor: mon})
	// a message arrives d1 after the connection was set up (within the first period)
	d1 := symI64("d1")
	symAssume(d1 > 0 && d1 < period)
	t1 := t0 + d1
	symSetNow(time.Unix(0, t1))
	switch symChoose("received", 5) {
	case 0:
		_ = cc.Process(nil, zzDatagram(message.Confirmable, 77, codes.GET, message.Token{0x77}, nil))
		symCover("request")
	case 1:
		_ = cc.Process(nil, zzDatagram(message.Confirmable, 78, codes.Empty, nil, nil))
		symCover("peer-ping")
	case 2:
		_ = cc.Process(nil, zzDatagram(message.Acknowledgement, 79, codes.Empty, nil, nil))
		symCover("stray-ack")
	case 3:
		_ = cc.Process(nil, zzDatagram(message.Reset, 80, codes.Empty, nil, nil))
		symCover("stray-reset")
	case 4:
		_ = cc.Process(nil, zzDatagram(message.NonConfirmable, 81, codes.Content, message.Token{0x55}, []byte{1}))
		symCover("unexpected-response")
	}
	symIdle()
	// a housekeeping tick d2 after that message
	d2 := symI64("d2")
	symAssume(d2 > 0 && d2 < 3*period)
	t2 := t1 + d2
	symSetNow(time.Unix(0, t2))
	cc.CheckExpirations(time.Unix(0, t2))
	if d2 <= period {
		symAssert(closed == 0 && s.ctx.Err() == nil, "a tick within the period after the last received message does not close")
	} else {
		symAssert(closed == 1 && s.ctx.Err() != nil, "the first tick after a full period without a received message closes")
	}
}

// the keep-alive ping on the datagram connection: an answer to the ping - the matching Reset, or a matching empty
// Acknowledgement (peers differ) - is reported as the pong exactly once; an answer with another message ID is not
func zzC18_udp_ping_answer() {
	s := zzNewSession()
	cc := zzNewConn(s, zzConnCfg{midSeed: 1000, maxRetrans: 2, ackTimeout: 1 << 30})
	symSetNow(time.Unix(0, 1<<41))
	pongs := 0
	cancel, err := cc.AsyncPing(func() { pongs++ })
	symAssert(err == nil && len(s.written) == 1, "the ping is on the wire")
	if err != nil || len(s.written) != 1 {
		return
	}
	w := s.written[0]
	symAssert(w.typ == message.Confirmable && w.code == codes.Empty, "a ping is an empty confirmable message")
	typ := []message.Type{message.Reset, message.Acknowledgement}[symChoose("answer-type", 2)]
	match := symChoose("matching-id", 2) == 1
	mid := w.mid
	if !match {
		mid = w.mid + 1
	}
	_ = cc.Process(nil, zzDatagram(typ, mid, codes.Empty, nil, nil))
	symIdle()
	if match {
		symCover("answered")
		symAssert(pongs == 1, "an answer to the ping (Reset or empty Acknowledgement with its message ID) is reported as the pong")
		// a copy of the answer is not a second pong
		_ = cc.Process(nil, zzDatagram(typ, mid, codes.Empty, nil, nil))
		symIdle()
		symAssert(pongs == 1, "a repeated answer is not reported again")
	} else {
		symCover("foreign-answer")
		symAssert(pongs == 0, "an answer with another message ID is not the pong")
	}
	cancel()
	symAssert(cc.midHandlerContainer.Length() == 0, "cancelling the ping leaves nothing behind")
}
