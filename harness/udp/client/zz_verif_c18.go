package client

import (
	"time"

	"github.com/plgd-dev/go-coap/v3/message"
	"github.com/plgd-dev/go-coap/v3/message/codes"
	"github.com/plgd-dev/go-coap/v3/net/monitor/inactivity"
)

// C18, the wiring on the datagram connection: *every* message received from the peer counts as activity - a
// request, the peer's ping (empty confirmable), a stray empty ACK or RST, a response nobody waits for - and the
// monitor closes at the first tick after a full period without any.
func zzC18_udp_wiring() {
	s := zzNewSession()
	const period = int64(10 * time.Second)
	closed := 0
	t0 := int64(1 << 41)
	symSetNow(time.Unix(0, t0))
	mon := inactivity.New(time.Duration(period), func(cc *Conn) {
		closed++
		_ = cc.Close()
	})
	cc := zzNewConn(s, zzConnCfg{midSeed: 1000, monitor: mon})
	// a message arrives d1 after the connection was set up (within the first period)
	d1 := symI64("d1")
	symAssume(d1 > 0 && d1 < period)
	t1 := t0 + d1
	symSetNow(time.Unix(0, t1))
	switch symChoose("received", 5) {
	case 0:
		_ = cc.Process(nil, zzDatagram(message.Confirmable, 77, codes.GET, message.Token{0x77}, nil))
		symCover("request")
	case 1:
		_ = cc.Process(nil, zzDatagram(message.Confirmable, 78, codes.Empty, nil, nil))
		symCover("peer-ping")
	case 2:
		_ = cc.Process(nil, zzDatagram(message.Acknowledgement, 79, codes.Empty, nil, nil))
		symCover("stray-ack")
	case 3:
		_ = cc.Process(nil, zzDatagram(message.Reset, 80, codes.Empty, nil, nil))
		symCover("stray-reset")
	case 4:
		_ = cc.Process(nil, zzDatagram(message.NonConfirmable, 81, codes.Content, message.Token{0x55}, []byte{1}))
		symCover("unexpected-response")
	}
	symIdle()
	// a housekeeping tick d2 after that message
	d2 := symI64("d2")
	symAssume(d2 > 0 && d2 < 3*period)
	t2 := t1 + d2
	symSetNow(time.Unix(0, t2))
	cc.CheckExpirations(time.Unix(0, t2))
	if d2 <= period {
		symAssert(closed == 0 && s.ctx.Err() == nil, "a tick within the period after the last received message does not close")
	} else {
		symAssert(closed == 1 && s.ctx.Err() != nil, "the first tick after a full period without a received message closes")
	}
}
