package client

import (
	"bytes"
	"io"
	"time"
)

func timeDuration(ns int64) time.Duration { return time.Duration(ns) }
func bytesReader(b []byte) io.ReadSeeker    { return bytes.NewReader(b) }
