package server

import (
	"context"
	"net"
	"time"

	"github.com/plgd-dev/go-coap/v3/message"
	"github.com/plgd-dev/go-coap/v3/message/pool"
	coapNet "github.com/plgd-dev/go-coap/v3/net"
	"github.com/plgd-dev/go-coap/v3/udp/client"
)

// C10, datagram server, the connection table: "messages from one remote address are handled by one logical
// connection per (remote, local) address pair". getConn is what Serve calls for every datagram read; the listener
// object is only stored by it (never used unless something is written), so a zero coapNet.UDPConn stands in.
// Reference (from the comments in server.go): a datagram from remote r to local l is handled by the connection
// keyed (r, l); if none exists and l is a concrete address, by the connection keyed (r, wildcard) when one exists
// (created through a wildcard local address); otherwise a new connection keyed (r, l) is created.

type zzOpt func(*Config)

func (o zzOpt) UDPServerApply(c *Config) { o(c) }

func zzC10_udp_connmap() {
	created := 0
	s := New(zzOpt(func(c *Config) {
		c.Ctx = context.Background()
		c.Errors = func(error) {}
		c.PeriodicRunner = func(f func(now time.Time) bool) {}
		c.MessagePool = pool.New(0, 1024)
		c.GetMID = func() int32 { return 1000 }
		c.GetToken = func() (message.Token, error) { return message.Token{0xEE}, nil }
		c.BlockwiseEnable = false
		c.CreateInactivityMonitor = nil
		c.OnNewConn = func(*client.Conn) { created++ }
		c.TransmissionNStart = 1
		c.TransmissionAcknowledgeTimeout = 2 * time.Second
		c.TransmissionMaxRetransmit = 4
		c.MTU = 1152
		c.MaxMessageSize = 1152
		c.ReceivedMessageQueueSize = 2
		c.LimitClientParallelRequests = 4
		c.LimitClientEndpointParallelRequests = 4
	}))
	symSetNow(time.Unix(0, 1<<41))
	l := new(coapNet.UDPConn)
	remotes := []*net.UDPAddr{
		{IP: net.IPv4(10, 0, 0, 1), Port: 40000},
		{IP: net.IPv4(10, 0, 0, 1), Port: 40001}, // same host, other port
		{IP: net.IPv4(10, 0, 0, 2), Port: 40000}, // other host, same port
	}
	locals := []*net.UDPAddr{
		{IP: net.IPv4(192, 168, 1, 1), Port: 5683},
		{IP: net.IPv4(192, 168, 1, 2), Port: 5683}, // second unicast address of the host
		{IP: net.IPv4zero, Port: 5683},             // wildcard
	}
	const wildcard = 2
	type rec struct {
		r, l int
		cc   *client.Conn
	}
	var table []rec // the reference connection table
	find := func(r, l int) *client.Conn {
		for _, e := range table {
			if e.r == r && e.l == l {
				return e.cc
			}
		}
		return nil
	}
	n := symParam("datagrams", 3)
	for i := 0; i < n; i++ {
		r := symChoose("remote", 3)
		lo := symChoose("local", 3)
		before := created
		cc, err := s.getConn(l, remotes[r], locals[lo], true)
		symAssert(err == nil && cc != nil, "every datagram gets a connection")
		if cc == nil {
			return
		}
		want := find(r, lo)
		if want == nil && lo != wildcard {
			want = find(r, wildcard)
		}
		if want != nil {
			symAssert(cc == want, "a datagram of a known (remote, local) pair is handled by that pair's connection")
			symAssert(created == before, "and no new connection is announced")
			symCover("existing")
		} else {
			for _, e := range table {
				symAssert(cc != e.cc, "a new (remote, local) pair gets a connection of its own")
			}
			symAssert(created == before+1, "which is announced once")
			table = append(table, rec{r, lo, cc})
			symCover("new")
		}
		ra, _ := cc.RemoteAddr().(*net.UDPAddr)
		symAssert(ra != nil && ra.Port == remotes[r].Port && ra.IP.Equal(remotes[r].IP), "the connection belongs to the peer that sent the datagram")
	}
	// closing one peer's connection does not disturb the others and frees its slot
	if len(table) >= 2 && symChoose("close-one", 2) == 1 {
		victim := table[0]
		if closeFn := getClose(victim.cc); closeFn != nil {
			closeFn()
		}
		other := table[1]
		cc, err := s.getConn(l, remotes[other.r], locals[other.l], true)
		symAssert(err == nil && cc == other.cc, "after one peer's connection was closed the other peers keep theirs")
		again, err := s.getConn(l, remotes[victim.r], locals[victim.l], true)
		symAssert(err == nil && again != nil && again != victim.cc, "and the closed peer gets a fresh connection when it talks again")
		symCover("closed-one")
	}
}

func zzC10_udp_connmap_selftest() {
	s := New(zzOpt(func(c *Config) {
		c.Ctx = context.Background()
		c.PeriodicRunner = func(f func(now time.Time) bool) {}
		c.MessagePool = pool.New(0, 1024)
		c.BlockwiseEnable = false
		c.CreateInactivityMonitor = nil
		c.TransmissionNStart = 1
	}))
	symSetNow(time.Unix(0, 1<<41))
	l := new(coapNet.UDPConn)
	a, _ := s.getConn(l, &net.UDPAddr{IP: net.IPv4(10, 0, 0, 1), Port: 1}, &net.UDPAddr{IP: net.IPv4(192, 168, 1, 1), Port: 5683}, true)
	b, _ := s.getConn(l, &net.UDPAddr{IP: net.IPv4(10, 0, 0, 1), Port: 2}, &net.UDPAddr{IP: net.IPv4(192, 168, 1, 1), Port: 5683}, true)
	symAssert(a == b, "selftest: must fail (two remote ports are two connections)")
}

