package server

import (
	"context"
	"net"
	"time"

	"github.com/plgd-dev/go-coap/v3/message"
	"github.com/plgd-dev/go-coap/v3/message/pool"
	coapNet "github.com/plgd-dev/go-coap/v3/net"
	"github.com/plgd-dev/go-coap/v3/net/monitor/inactivity"
	"github.com/plgd-dev/go-coap/v3/udp/client"
)

// C18 on the datagram server: a peer that was silent for a full period is closed - by the housekeeping tick, or, when
// it speaks again before the next tick, by the datagram itself: the stale connection is closed (its inactivity
// callback fires once) and the datagram is handled by a fresh connection. A peer that speaks within the period
// keeps its connection.
func zzC18_udp_server_silence() {
	const period = int64(10 * time.Second)
	inactive := 0
	s := New(zzOpt(func(c *Config) {
		c.Ctx = context.Background()
		c.Errors = func(error) {}
		c.PeriodicRunner = func(f func(now time.Time) bool) {}
		c.MessagePool = pool.New(0, 1024)
		c.GetMID = func() int32 { return 1000 }
		c.GetToken = func() (message.Token, error) { return message.Token{0xEE}, nil }
		c.BlockwiseEnable = false
		c.CreateInactivityMonitor = func() client.InactivityMonitor {
			return inactivity.New(time.Duration(period), func(cc *client.Conn) {
				inactive++
				_ = cc.Close()
			})
		}
		c.TransmissionNStart = 1
		c.TransmissionAcknowledgeTimeout = 2 * time.Second
		c.TransmissionMaxRetransmit = 4
		c.MTU = 1152
		c.MaxMessageSize = 1152
		c.ReceivedMessageQueueSize = 2
		c.LimitClientParallelRequests = 4
		c.LimitClientEndpointParallelRequests = 4
	}))
	t0 := int64(1 << 41)
	symSetNow(time.Unix(0, t0))
	l := new(coapNet.UDPConn)
	remote := &net.UDPAddr{IP: net.IPv4(10, 0, 0, 1), Port: 40000}
	local := &net.UDPAddr{IP: net.IPv4(192, 168, 1, 1), Port: 5683}
	cc1, err := s.getConn(l, remote, local, true)
	symAssert(err == nil && cc1 != nil, "the first datagram gets a connection")
	if cc1 == nil {
		return
	}
	gap := symI64("silence")
	symAssume(gap > 0 && gap < 3*period)
	// the server allows itself 10 ms for the check: the zone around the boundary is left out
	symAssume(gap < period-int64(20*time.Millisecond) || gap > period+int64(20*time.Millisecond))
	symSetNow(time.Unix(0, t0+gap))
	tick := symChoose("tick-before-the-datagram", 2) == 1
	if tick {
		s.handleInactivityMonitors(time.Unix(0, t0+gap))
	}
	cc2, err := s.getConn(l, remote, local, true)
	symAssert(err == nil && cc2 != nil, "the next datagram gets a connection")
	if gap > period {
		symCover("silent-for-a-period")
		// (how often the callback runs is not part of the property: after a tick has closed the connection, the
		// datagram finds it still in the table and checks it once more)
		symAssert(inactive >= 1, "a connection that was silent for a full period is found inactive - by the tick or by the datagram that ends the silence")
		symAssert(cc1.Context().Err() != nil, "and is closed")
		symAssert(cc2 != cc1, "the datagram that ends the silence is handled by a fresh connection")
	} else {
		symCover("spoke-in-time")
		symAssert(inactive == 0 && cc2 == cc1 && cc1.Context().Err() == nil, "a peer that speaks within the period keeps its connection")
	}
}
