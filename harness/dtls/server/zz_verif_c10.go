package server

import (
	"bytes"
	"context"
	"errors"
	"io"
	"net"
	"time"

	"github.com/plgd-dev/go-coap/v3/message"
	"github.com/plgd-dev/go-coap/v3/message/codes"
	"github.com/plgd-dev/go-coap/v3/message/pool"
	coapNet "github.com/plgd-dev/go-coap/v3/net"
	"github.com/plgd-dev/go-coap/v3/net/responsewriter"
	udpClient "github.com/plgd-dev/go-coap/v3/udp/client"
	"github.com/plgd-dev/go-coap/v3/udp/coder"
)

// C10 / C09 on the DTLS server — the real Server.Serve accept loop, handshake handling, one real datagram
// connection (dtls/server.Session.Run) per accepted in-memory "secure" socket. The socket's HandshakeContext is
// what the server calls; a peer's handshake completes, fails, or stalls until its context ends. The record layer
// itself (pion/dtls) is not part of this: each Read returns one decrypted datagram.

type zzAddr struct{ id byte }

func (zzAddr) Network() string  { return "udp" }
func (a zzAddr) String() string { return string([]byte{'m', 'e', 'm', '0' + a.id}) }

const (
	zzHsOK = iota
	zzHsStall
	zzHsFail
)

type zzSock struct {
	id        byte
	hs        int
	hsStarted bool
	in        chan []byte
	closedC   chan struct{}
	closed    bool
	out       [][]byte
}

func zzNewSock(id byte, hs int) *zzSock {
	return &zzSock{id: id, hs: hs, in: make(chan []byte, 4), closedC: make(chan struct{})}
}

func (c *zzSock) HandshakeContext(ctx context.Context) error {
	c.hsStarted = true
	switch c.hs {
	case zzHsStall:
		select {
		case <-ctx.Done():
			return ctx.Err()
		case <-c.closedC:
			return net.ErrClosed
		}
	case zzHsFail:
		return errors.New("handshake: bad record")
	}
	return nil
}

func (c *zzSock) Read(b []byte) (int, error) {
	select {
	case d, ok := <-c.in:
		if !ok {
			return 0, io.EOF
		}
		return copy(b, d), nil
	case <-c.closedC:
		return 0, net.ErrClosed
	}
}

func (c *zzSock) Write(b []byte) (int, error) {
	if c.closed {
		return 0, net.ErrClosed
	}
	c.out = append(c.out, append([]byte(nil), b...))
	return len(b), nil
}

func (c *zzSock) Close() error {
	if c.closed {
		return net.ErrClosed
	}
	c.closed = true
	close(c.closedC)
	return nil
}
func (c *zzSock) LocalAddr() net.Addr                { return zzAddr{0} }
func (c *zzSock) RemoteAddr() net.Addr               { return zzAddr{c.id} }
func (c *zzSock) SetDeadline(t time.Time) error      { return nil }
func (c *zzSock) SetReadDeadline(t time.Time) error  { return nil }
func (c *zzSock) SetWriteDeadline(t time.Time) error { return nil }

type zzListener struct {
	conns   chan net.Conn
	closedC chan struct{}
	closed  bool
}

func (l *zzListener) AcceptWithContext(ctx context.Context) (net.Conn, error) {
	select {
	case c := <-l.conns:
		return c, nil
	case <-l.closedC:
		return nil, coapNet.ErrListenerIsClosed
	case <-ctx.Done():
		return nil, ctx.Err()
	}
}

func (l *zzListener) Close() error {
	if !l.closed {
		l.closed = true
		close(l.closedC)
	}
	return nil
}

type zzOpt func(*Config)

func (o zzOpt) DTLSServerApply(c *Config) { o(c) }

func zzDatagram(typ message.Type, mid int32, code codes.Code, token message.Token, payload []byte) []byte {
	m := pool.NewMessage(context.Background())
	m.SetType(typ)
	m.SetMessageID(mid)
	m.SetCode(code)
	m.SetToken(token)
	if len(payload) > 0 {
		m.SetContentFormat(message.AppOctets)
		m.SetBody(bytes.NewReader(payload))
	}
	b, err := m.MarshalWithEncoder(coder.DefaultCoder)
	if err != nil {
		return nil
	}
	return append([]byte(nil), b...)
}

type zzReply struct {
	code    codes.Code
	mid     int32
	token   []byte
	payload []byte
}

func zzReplies(out [][]byte) []zzReply {
	var rs []zzReply
	for _, d := range out {
		var m message.Message
		m.Options = make(message.Options, 0, 8)
		if _, err := coder.DefaultCoder.Decode(d, &m); err == nil {
			rs = append(rs, zzReply{m.Code, m.MessageID, append([]byte(nil), m.Token...), append([]byte(nil), m.Payload...)})
		}
	}
	return rs
}

func zzNewServer(handled *int) *Server {
	return New(zzOpt(func(c *Config) {
		c.Ctx = context.Background()
		c.MaxMessageSize = 1152
		c.MTU = 1152
		c.Errors = func(error) {}
		c.PeriodicRunner = func(f func(now time.Time) bool) {}
		c.MessagePool = pool.New(0, 1024)
		c.GetMID = func() int32 { return 1000 }
		c.GetToken = func() (message.Token, error) { return message.Token{0xEE}, nil }
		c.BlockwiseEnable = false
		c.LimitClientParallelRequests = 4
		c.LimitClientEndpointParallelRequests = 4
		c.ReceivedMessageQueueSize = 2
		c.CreateInactivityMonitor = nil
		c.TransmissionNStart = 1
		c.TransmissionAcknowledgeTimeout = 2 * time.Second
		c.TransmissionMaxRetransmit = 4
		c.HandshakeTimeout = 30 * time.Second
		c.Handler = func(w *responsewriter.ResponseWriter[*udpClient.Conn], r *pool.Message) {
			*handled++
			id := byte(0xFF)
			if p, ok := w.Conn().NetConn().(*zzSock); ok {
				id = p.id
			}
			tag := byte(0)
			if b, err := r.ReadBody(); err == nil && len(b) == 1 {
				tag = b[0]
			}
			_ = w.SetResponse(codes.Content, message.AppOctets, bytes.NewReader([]byte{id, tag}))
		}
	}))
}

func zzC10_dtls_server() {
	handled := 0
	srv := zzNewServer(&handled)
	symSetNow(time.Unix(0, 1<<41))
	l := &zzListener{conns: make(chan net.Conn, 4), closedC: make(chan struct{})}
	served := false
	go func() {
		_ = srv.Serve(l)
		served = true
	}()
	symSchedCanonical(true)
	good := zzNewSock(1, zzHsOK)
	badHs := []int{zzHsStall, zzHsFail, zzHsOK}[symChoose("other-peer-handshake", 3)]
	bad := zzNewSock(2, badHs)
	when := symChoose("when", 3)
	t1, t2 := symU8("tag1"), symU8("tag2")
	misbehave := func() {
		l.conns <- net.Conn(bad)
		symIdle()
		switch badHs {
		case zzHsStall:
			symCover("stalled-handshake")
		case zzHsFail:
			symCover("failed-handshake")
			symAssert(bad.closed, "a peer whose handshake fails is closed")
		case zzHsOK:
			// handshake fine, then garbage, then gone
			bad.in <- []byte{0xFF, 0x00, 0x01}
			symIdle()
			close(bad.in)
			symIdle()
			symCover("garbage-then-closed")
		}
	}
	if when == 0 {
		misbehave()
	}
	l.conns <- net.Conn(good)
	good.in <- zzDatagram(message.Confirmable, 11, codes.GET, message.Token{0xA1}, []byte{t1})
	symIdle()
	if when == 1 {
		misbehave()
	}
	good.in <- zzDatagram(message.Confirmable, 12, codes.GET, message.Token{0xA2}, []byte{t2})
	symIdle()
	if when == 2 {
		misbehave()
	}
	rs := zzReplies(good.out)
	symAssert(len(rs) == 2, "the well-behaved peer receives exactly one reply per request, whatever another peer does")
	if len(rs) == 2 {
		symAssert(rs[0].code == codes.Content && rs[0].mid == 11 && bytes.Equal(rs[0].token, []byte{0xA1}) && bytes.Equal(rs[0].payload, []byte{1, t1}), "first reply: own message ID and token, produced for its own connection and request")
		symAssert(rs[1].code == codes.Content && rs[1].mid == 12 && bytes.Equal(rs[1].token, []byte{0xA2}) && bytes.Equal(rs[1].payload, []byte{1, t2}), "second reply, in arrival order")
	}
	symAssert(!good.closed, "the well-behaved peer's connection stays open")
	// the server keeps accepting, also while another peer's handshake is still pending
	third := zzNewSock(3, zzHsOK)
	l.conns <- net.Conn(third)
	third.in <- zzDatagram(message.Confirmable, 21, codes.GET, message.Token{0xA1}, []byte{7})
	symIdle()
	r3 := zzReplies(third.out)
	symAssert(len(r3) == 1 && bytes.Equal(r3[0].payload, []byte{3, 7}), "a peer that connects afterwards is served")
	symCover("third-served")
	srv.Stop()
	symWaitUntil(func() bool { return served })
	symIdle()
	symAssert(good.closed && third.closed && bad.closed, "Stop ends Serve and closes every socket, also one whose handshake never finished")
	symCover("stopped")
}

func zzC10_dtls_selftest() {
	handled := 0
	srv := zzNewServer(&handled)
	symSetNow(time.Unix(0, 1<<41))
	l := &zzListener{conns: make(chan net.Conn, 4), closedC: make(chan struct{})}
	served := false
	go func() {
		_ = srv.Serve(l)
		served = true
	}()
	p := zzNewSock(1, zzHsOK)
	l.conns <- net.Conn(p)
	p.in <- zzDatagram(message.Confirmable, 11, codes.GET, message.Token{0xA1}, nil)
	symIdle()
	symAssert(len(zzReplies(p.out)) == 0, "selftest: must fail (the request is answered)")
	srv.Stop()
	symWaitUntil(func() bool { return served })
}
