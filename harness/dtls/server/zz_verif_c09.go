package server

import (
	"context"
	"time"

	"github.com/plgd-dev/go-coap/v3/message"
	"github.com/plgd-dev/go-coap/v3/message/codes"
	"github.com/plgd-dev/go-coap/v3/message/pool"
	coapNet "github.com/plgd-dev/go-coap/v3/net"
)

// C09 on the datagram connection *with a real session*: udp/client.Conn over dtls/server.Session (its Run read
// loop, Close, shutdown, on-close callbacks, done signal) over an in-memory secure socket - the way the DTLS server
// creates its per-peer connections (Server.createConn).

func zzC09_dtls() {
	handled := 0
	srv := zzNewServer(&handled)
	symSetNow(time.Unix(0, 1<<41))
	sock := zzNewSock(1, zzHsOK)
	cc := srv.createConn(coapNet.NewConn(sock), srv.cfg.CreateInactivityMonitor(), srv.cfg.RequestMonitor)
	onClose := [2]int{}
	cc.AddOnClose(func() { onClose[0]++ })
	cc.AddOnClose(func() { onClose[1]++ })
	runDone := false
	go func() {
		_ = cc.Run()
		runDone = true
	}()
	op := symChoose("operation", 4)
	stage := symChoose("stage", 3)
	end := symChoose("end", 5)
	ctx, cancel := context.WithCancel(context.Background())
	defer cancel()
	closers := 0
	finish := func() {
		switch end {
		case 0:
			cancel()
			symCover("context-cancelled")
		case 1:
			symAssert(cc.Close() == nil, "Close succeeds")
			symCover("closed-locally")
		case 2:
			for i := 0; i < 2; i++ {
				go func() {
					_ = cc.Close()
					closers++
				}()
			}
			symCover("closed-twice-concurrently")
		case 3: // the peer goes away (the secure socket reports end of stream)
			close(sock.in)
			symCover("peer-closed")
		case 4: // the peer sends something that is not a CoAP datagram
			sock.in <- []byte{0xFF, 0x00}
			symCover("peer-garbage")
		}
	}
	if stage == 0 {
		finish()
		if end != 0 {
			symWaitUntil(func() bool { return runDone })
		}
	}
	done := false
	var err error
	go func() {
		switch op {
		case 0:
			req := pool.NewMessage(ctx)
			req.SetCode(codes.GET)
			req.SetToken(message.Token{0xA1})
			_ = req.SetPath("/a")
			_, err = cc.Do(req)
		case 1:
			req := pool.NewMessage(ctx)
			req.SetCode(codes.GET)
			req.SetToken(message.Token{0xA2})
			_ = req.SetPath("/obs")
			req.SetObserve(0)
			_, err = cc.DoObserve(req, func(n *pool.Message) {})
		case 2:
			err = cc.Ping(ctx)
		case 3:
			req := pool.NewMessage(ctx)
			req.SetCode(codes.POST)
			req.SetToken(message.Token{0xA5})
			req.SetType(message.Confirmable)
			_ = req.SetPath("/a")
			err = cc.WriteMessage(req)
		}
		done = true
	}()
	if stage >= 1 {
		symWaitUntil(func() bool { return len(sock.out) >= 1 }) // the request is out; the peer is silent
		if stage == 2 && op != 2 {
			// the peer acknowledges and never responds
			rs := zzReplies(sock.out)
			if len(rs) >= 1 {
				sock.in <- zzDatagram(message.Acknowledgement, rs[0].mid, codes.Empty, nil, nil)
				symCover("acknowledged-without-response")
			}
		}
		symIdle()
		if op == 3 && stage == 2 {
			symAssert(done && err == nil, "an acknowledged one-way write has completed")
		} else {
			symAssert(!done, "without a response the operation is still waiting")
		}
		finish()
	}
	symWaitUntil(func() bool { return done })
	symCover("returned")
	if !(op == 3 && stage == 2) {
		symAssert(err != nil, "an operation that never got its answer returns an error")
	}
	symAssert(cc.Close() == nil, "Close succeeds, also when repeated")
	symWaitUntil(func() bool { return runDone })
	if end == 2 {
		symWaitUntil(func() bool { return closers == 2 })
	}
	select {
	case <-cc.Done():
	default:
		symAssert(false, "the done signal is completed once the read loop has ended")
	}
	symAssert(onClose[0] == 1 && onClose[1] == 1, "every registered on-close callback ran exactly once")
	symAssert(sock.closed, "the socket is closed")
	symAssert(cc.Close() == nil, "Close after everything ended still succeeds")
	symAssert(onClose[0] == 1 && onClose[1] == 1, "and runs no callback again")
	symCover("closed")
}
