package observation

import (
	"context"
	"time"

	"github.com/plgd-dev/go-coap/v3/message"
	"github.com/plgd-dev/go-coap/v3/message/codes"
	"github.com/plgd-dev/go-coap/v3/message/pool"
	"github.com/plgd-dev/go-coap/v3/net/responsewriter"
)

// RFC 7641 §3.4, written from the RFC: V1 = last accepted, V2 = incoming, T1/T2 their arrival times.
func zzFresh(v1, v2 uint32, t1, t2 int64) bool {
	if v1 < v2 && v2-v1 < 1<<23 {
		return true
	}
	if v1 > v2 && v1-v2 > 1<<23 {
		return true
	}
	return t2 > t1+128*int64(time.Second)
}

func zzC08_predicate() {
	v1, v2 := symU32("old"), symU32("new")
	t1, t2 := symI64("t1"), symI64("t2")
	symAssume(t1 > 1<<40 && t1 < 1<<60 && t2 > 1<<40 && t2 < 1<<60)
	got := ValidSequenceNumber(v1, v2, time.Unix(0, t1), time.Unix(0, t2))
	symObserve("valid", got)
	symAssert(got == zzFresh(v1, v2, t1, t2), "ValidSequenceNumber is the RFC 7641 section 3.4 freshness formula")
	if got {
		symCover("fresh")
	} else {
		symCover("stale")
	}
}

type zzClient struct {
	h        *Handler[*zzClient]
	respCode codes.Code // code of the synchronous answer to a registration
	answer   bool
	written  int
	ctx      context.Context
	regSeq   *uint32 // Observe value of the registration answer (default 2)
}

func (c *zzClient) Context() context.Context { return c.ctx }
func (c *zzClient) ReleaseMessage(m *pool.Message) {}
func (c *zzClient) AcquireMessage(ctx context.Context) *pool.Message { return pool.NewMessage(ctx) }
func (c *zzClient) WriteMessage(req *pool.Message) error {
	c.written++
	if c.answer {
		// the peer answers the registration at once: deliver it through the handler like the connection does
		resp := pool.NewMessage(c.ctx)
		resp.SetCode(c.respCode)
		resp.SetToken(req.Token())
		if c.regSeq != nil {
			resp.SetObserve(*c.regSeq)
		} else {
			resp.SetObserve(2)
		}
		c.h.Handle(responsewriter.New(pool.NewMessage(c.ctx), c), resp)
	}
	return nil
}

func zzNotification(token message.Token, withObserve bool, seq uint32) *pool.Message {
	m := pool.NewMessage(context.Background())
	m.SetCode(codes.Content)
	m.SetToken(token)
	if withObserve {
		m.SetObserve(seq)
	}
	return m
}

// one notification from an arbitrary observation state: callback invoked exactly when fresh, state moves exactly then
func zzC08_step() {
	cc := &zzClient{ctx: context.Background()}
	nextCalls := 0
	h := NewHandler(cc, func(w *responsewriter.ResponseWriter[*zzClient], r *pool.Message) { nextCalls++ }, nil)
	cc.h = h
	calls := 0
	tok := message.Token{0xA1, 0xA2}
	o := newObservation(message.Message{Token: tok, Code: codes.GET}, h, func(r *pool.Message) { calls++ }, nil)
	o.waitForResponse.Store(false)
	h.observations.Store(tok.Hash(), o)
	v1 := symU32("last")
	symAssume(v1 <= 0xffffff)
	t1 := symI64("t1")
	t2 := symI64("t2")
	symAssume(t1 > 1<<40 && t1 <= t2 && t2 < 1<<60)
	o.private.obsSequence = v1
	o.private.lastEvent = time.Unix(0, t1)
	with := symBool("hasObserve")
	v2 := symU32("seq")
	symAssume(v2 <= 0xffffff)
	symSetNow(time.Unix(0, t2))
	h.Handle(responsewriter.New(pool.NewMessage(cc.ctx), cc), zzNotification(tok, with, v2))
	symObserve("calls", calls)
	symAssert(nextCalls == 0, "a notification for a registered token is not passed on to the default handler")
	if !with {
		symCover("no-observe-option")
		symAssert(calls == 1, "a response without Observe option is always delivered")
	} else if zzFresh(v1, v2, t1, t2) {
		symCover("fresh")
		symAssert(calls == 1, "a fresh notification reaches the callback")
		symAssert(o.private.obsSequence == v2 && o.private.lastEvent.Equal(time.Unix(0, t2)), "accepting a notification records its sequence number and time")
	} else {
		symCover("stale")
		symAssert(calls == 0, "a stale or duplicated notification does not reach the callback")
		symAssert(o.private.obsSequence == v1 && o.private.lastEvent.Equal(time.Unix(0, t1)), "rejecting a notification leaves the state unchanged")
	}
}

// registration, routing by token, cancellation
func zzC08_routing() {
	cc := &zzClient{ctx: context.Background(), answer: true}
	nextCalls := 0
	h := NewHandler(cc, func(w *responsewriter.ResponseWriter[*zzClient], r *pool.Message) { nextCalls++ },
		func(req *pool.Message) (*pool.Message, error) {
			resp := pool.NewMessage(context.Background())
			resp.SetCode(codes.Content)
			resp.SetToken(req.Token())
			return resp, nil
		})
	cc.h = h
	tokA, tokB, tokC := message.Token{0xA1}, message.Token{0xB1, 0xB2}, message.Token{0xC1, 0xC2, 0xC3}
	if symChoose("lookalike-tokens", 2) == 1 {
		// tokens that differ only in length / leading zero bytes are different tokens
		tokA, tokB, tokC = message.Token{0x01}, message.Token{0x00, 0x01}, message.Token{0x00, 0x00, 0x01}
		symCover("lookalike-tokens")
	}
	callsA, callsB := 0, 0
	reg := func(tok message.Token, cb func(*pool.Message)) (*Observation[*zzClient], error) {
		req := pool.NewMessage(context.Background())
		req.SetCode(codes.GET)
		req.SetToken(tok)
		req.SetObserve(0)
		return h.NewObservation(req, cb)
	}
	code := symU16("code")
	cc.respCode = codes.Code(code)
	oA, errA := reg(tokA, func(r *pool.Message) { callsA++ })
	symObserve("registered", errA == nil)
	okCode := code == uint16(codes.Content) || code == uint16(codes.Valid)
	symAssert((errA == nil) == okCode, "registration succeeds exactly on a 2.05 or 2.03 answer")
	callsA = 0
	cc.respCode = codes.Content
	_, errB := reg(tokB, func(r *pool.Message) { callsB++ })
	symAssert(errB == nil, "second registration succeeds")
	callsB = 0
	// the decided scenario
	cancelHow := symChoose("cancelA", 3) // 0: not cancelled; 1: Cancel; 2: Cancel with a context that is already done (shutdown path)
	cancelA := cancelHow != 0
	if cancelA && errA == nil {
		if cancelHow == 1 {
			symAssert(oA.Cancel(context.Background()) == nil, "cancel succeeds")
		} else {
			dctx, dcancel := context.WithCancel(context.Background())
			dcancel()
			_ = oA.Cancel(dctx) // whatever it reports: once it has returned, the observation is over
			symCover("cancelled-with-done-context")
		}
	}
	which := symChoose("token", 3)
	tok := []message.Token{tokA, tokB, tokC}[which]
	seq := symU32("seq")
	symAssume(seq >= 10 && seq < 1000)
	h.Handle(responsewriter.New(pool.NewMessage(cc.ctx), cc), zzNotification(tok, true, seq))
	symObserve("callsA", callsA)
	symObserve("callsB", callsB)
	symObserve("next", nextCalls)
	aLive := errA == nil && !cancelA
	switch which {
	case 0:
		if aLive {
			symCover("to-A")
			symAssert(callsA == 1 && callsB == 0 && nextCalls == 0, "a notification with token A reaches only A's callback")
		} else {
			symCover("to-dead-A")
			symAssert(callsA == 0 && callsB == 0, "after failed registration or completed cancellation no notification reaches the callback")
		}
	case 1:
		symCover("to-B")
		symAssert(callsB == 1 && callsA == 0 && nextCalls == 0, "a notification with token B reaches only B's callback")
	default:
		symCover("to-nobody")
		symAssert(callsA == 0 && callsB == 0 && nextCalls == 1, "a notification with an unknown token reaches no observation callback")
	}
}

// the registration answer is the first accepted notification: what follows is judged against its sequence number
// and arrival time (a copy of the answer, or an older notification it overtook, is not delivered again)
func zzC08_first() {
	s0 := symU32("answer-seq")
	symAssume(s0 <= 0xffffff)
	cc := &zzClient{ctx: context.Background(), answer: true, respCode: codes.Content, regSeq: &s0}
	h := NewHandler(cc, func(w *responsewriter.ResponseWriter[*zzClient], r *pool.Message) {},
		func(req *pool.Message) (*pool.Message, error) {
			resp := pool.NewMessage(context.Background())
			resp.SetCode(codes.Content)
			resp.SetToken(req.Token())
			return resp, nil
		})
	cc.h = h
	t0, t1 := symI64("t0"), symI64("t1")
	symAssume(t0 > 1<<40 && t0 <= t1 && t1 < 1<<60)
	symSetNow(time.Unix(0, t0))
	tok := message.Token{0xA1, 0xA2}
	calls := 0
	req := pool.NewMessage(context.Background())
	req.SetCode(codes.GET)
	req.SetToken(tok)
	req.SetObserve(0)
	_, err := h.NewObservation(req, func(r *pool.Message) { calls++ })
	symAssert(err == nil, "registration succeeds")
	if err != nil {
		return
	}
	symAssert(calls == 1, "the registration answer is delivered to the callback once")
	calls = 0
	s1 := symU32("seq")
	symAssume(s1 <= 0xffffff)
	symSetNow(time.Unix(0, t1))
	h.Handle(responsewriter.New(pool.NewMessage(cc.ctx), cc), zzNotification(tok, true, s1))
	symObserve("calls", calls)
	if zzFresh(s0, s1, t0, t1) {
		symCover("fresh-after-answer")
		symAssert(calls == 1, "a notification fresher than the registration answer reaches the callback")
	} else {
		symCover("stale-after-answer")
		symAssert(calls == 0, "a copy of the registration answer or an older notification does not reach the callback")
	}
}

// a notification racing with Cancel (2 threads): once Cancel has returned no later notification reaches the callback
func zzC08_cancel_race() {
	cc := &zzClient{ctx: context.Background(), answer: true, respCode: codes.Content}
	h := NewHandler(cc, func(w *responsewriter.ResponseWriter[*zzClient], r *pool.Message) {},
		func(req *pool.Message) (*pool.Message, error) {
			resp := pool.NewMessage(context.Background())
			resp.SetCode(codes.Content)
			resp.SetToken(req.Token())
			return resp, nil
		})
	cc.h = h
	tok := message.Token{0xA1}
	calls := 0
	cancelled := false
	late := 0
	req := pool.NewMessage(context.Background())
	req.SetCode(codes.GET)
	req.SetToken(tok)
	req.SetObserve(0)
	o, err := h.NewObservation(req, func(r *pool.Message) {
		calls++
		if cancelled {
			late++
		}
	})
	symAssert(err == nil, "registration succeeds")
	if err != nil {
		return
	}
	done := false
	go func() {
		h.Handle(responsewriter.New(pool.NewMessage(cc.ctx), cc), zzNotification(tok, true, 10))
		h.Handle(responsewriter.New(pool.NewMessage(cc.ctx), cc), zzNotification(tok, true, 11))
		done = true
	}()
	_ = o.Cancel(context.Background())
	cancelled = true
	symWaitUntil(func() bool { return done })
	// notifications that arrive after Cancel returned
	h.Handle(responsewriter.New(pool.NewMessage(cc.ctx), cc), zzNotification(tok, true, 12))
	symCover("raced")
	symAssert(o.Canceled(), "the observation is cancelled")
	_, still := h.GetObservation(tok.Hash())
	symAssert(!still, "no observation entry is left")
	before := calls
	h.Handle(responsewriter.New(pool.NewMessage(cc.ctx), cc), zzNotification(tok, true, 13))
	symAssert(calls == before, "once cancellation has returned no notification arriving later reaches the callback")
}

func zzC08_selftest() {
	v1, v2 := symU32("old"), symU32("new")
	symAssert(!ValidSequenceNumber(v1, v2, time.Unix(0, 1<<41), time.Unix(0, 1<<41)), "selftest: must fail")
}
