package inactivity

import (
	"context"
	"time"
)

type zzConn struct{ closed int }

func (c *zzConn) Context() context.Context { return context.Background() }
func (c *zzConn) Close() error              { c.closed++; return nil }

// plain inactivity monitor: closed at a tick exactly when no message was received for more than a full period
func zzC18_inactivity() {
	dur := symI64("duration")
	symAssume(dur > 0 && dur < 1<<50)
	t := symI64("t0")
	symAssume(t > 1<<40 && t < 1<<58)
	cc := &zzConn{}
	closes := 0
	symSetNow(time.Unix(0, t))
	m := New(time.Duration(dur), func(c *zzConn) { closes++ })
	lastRecv := t
	k := symParam("events", 4)
	for i := 0; i < k; i++ {
		nt := symI64("t")
		symAssume(nt >= t && nt < 1<<58)
		t = nt
		if symChoose("event", 2) == 0 {
			symSetNow(time.Unix(0, t))
			m.Notify()
			lastRecv = t
			symCover("message")
		} else {
			before := closes
			m.CheckInactivity(time.Unix(0, t), cc)
			if t-lastRecv > dur {
				symCover("idle-tick")
				symAssert(closes == before+1, "the first tick after a full idle period closes the connection")
			} else {
				symCover("active-tick")
				symAssert(closes == before, "a tick within the period after the last received message does not close")
			}
		}
	}
	symObserve("closes", closes)
}

type zzPing struct {
	pong      func()
	cancelled bool
}

// keep-alive: closed exactly when more than maxRetries consecutive pings went unanswered
func zzC18_keepalive() {
	dur := symI64("duration")
	symAssume(dur > 0 && dur < 1<<50)
	maxRetries := symU32("maxRetries")
	symAssume(maxRetries <= 3)
	t := symI64("t0")
	symAssume(t > 1<<40 && t < 1<<58)
	cc := &zzConn{}
	closes := 0
	var pings []*zzPing
	ka := NewKeepAlive(maxRetries, func(c *zzConn) { closes++ }, func(c *zzConn, receivePong func()) (func(), error) {
		p := &zzPing{pong: receivePong}
		pings = append(pings, p)
		return func() { p.cancelled = true }, nil
	})
	symSetNow(time.Unix(0, t))
	m := New(time.Duration(dur), ka.OnInactive)
	lastRecv := t
	count := uint32(0) // consecutive unanswered pings since the last credited pong or received message
	stale := false
	k := symParam("events", 4)
	for i := 0; i < k && closes == 0; i++ {
		nt := symI64("t")
		symAssume(nt >= t && nt < 1<<58)
		t = nt
		switch symChoose("event", 3) {
		case 0: // a message other than a pong is received
			symSetNow(time.Unix(0, t))
			m.Notify()
			lastRecv = t
			if count > 0 {
				stale = true
			}
			count = 0
			symCover("message")
		case 1: // housekeeping tick
			beforeClose, beforePings := closes, len(pings)
			m.CheckInactivity(time.Unix(0, t), cc)
			symKnown("C18-message-does-not-reset-count", stale)
			if t-lastRecv > dur {
				count++
				if count > maxRetries {
					symCover("close")
					symAssert(closes == beforeClose+1, "connection is closed once more than maxRetries consecutive pings went unanswered")
				} else {
					symCover("ping")
					symAssert(closes == beforeClose, "connection is not closed while at most maxRetries consecutive pings are unanswered")
					symAssert(len(pings) == beforePings+1, "an idle period sends one ping")
					if beforePings > 0 {
						symAssert(pings[beforePings-1].cancelled, "the previous ping is superseded")
					}
				}
			} else {
				symCover("active-tick")
				symAssert(closes == beforeClose && len(pings) == beforePings, "no ping and no close while the connection is active")
			}
		case 2: // a pong arrives for some ping sent earlier (possibly a late one)
			if len(pings) == 0 {
				symAssume(false)
			}
			j := symChoose("pong-for", len(pings))
			pings[j].pong()
			if j == len(pings)-1 {
				symCover("pong-current")
				count = 0
			} else {
				symCover("pong-late")
			}
		}
	}
	symObserve("closes", closes)
	symObserve("pings", len(pings))
}

func zzC18_selftest() {
	dur := symI64("duration")
	symAssume(dur > 0 && dur < 1<<50)
	closes := 0
	symSetNow(time.Unix(0, 1<<41))
	m := New(time.Duration(dur), func(c *zzConn) { closes++ })
	m.CheckInactivity(time.Unix(0, symI64("t")), &zzConn{})
	symAssert(closes == 0, "selftest: must fail (a late tick closes)")
}
