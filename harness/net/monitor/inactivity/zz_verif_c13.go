package inactivity

import "time"

// C13 for keep-alive pings: the state registered for a ping (its cancel function stands for the token handler /
// message-ID continuation the connection keeps for it) is released when the ping is answered, superseded by the
// next keep-alive round, or when keep-alive gives up - never left behind on a connection that lives on
func zzC13_keepalive_ping() {
	maxRetries := uint32(1 + symChoose("maxRetries", 3))
	cc := &zzConn{}
	closes := 0
	var pings []*zzPing
	ka := NewKeepAlive(maxRetries, func(c *zzConn) { closes++ }, func(c *zzConn, receivePong func()) (func(), error) {
		p := &zzPing{pong: receivePong}
		pings = append(pings, p)
		return func() { p.cancelled = true }, nil
	})
	t := int64(1 << 41)
	symSetNow(time.Unix(0, t))
	m := New(time.Second, ka.OnInactive)
	for i := 0; i < symParam("rounds", 4) && closes == 0; i++ {
		t += int64(2 * time.Second)
		m.CheckInactivity(time.Unix(0, t), cc)
		if closes > 0 {
			break
		}
		for j := 0; j+1 < len(pings); j++ {
			symAssert(pings[j].cancelled, "the state of a keep-alive ping is released once the next round has superseded it")
		}
		if symChoose("answered", 2) == 1 {
			// the pong arrives: the connection releases the ping's state itself and tells keep-alive
			p := pings[len(pings)-1]
			p.pong()
			p.cancelled = true
			symSetNow(time.Unix(0, t))
			m.Notify()
			symCover("answered")
		} else {
			symCover("ignored")
		}
	}
	if closes > 0 {
		symCover("gave-up")
		for _, p := range pings {
			symAssert(p.cancelled, "when keep-alive gives up no ping state is left behind")
		}
	}
}

// C18: a ping that could not even be sent (socket error, token collision) is an unanswered ping like any other - a
// silent connection is closed after more than the configured number of silent rounds, however many of the pings
// failed to go out
func zzC18_keepalive_send_fails() {
	maxRetries := uint32(symChoose("maxRetries", 4))
	cc := &zzConn{}
	closes := 0
	sent := 0
	fail := [6]bool{}
	for i := range fail {
		fail[i] = symChoose("send-fails", 2) == 1
	}
	ka := NewKeepAlive(maxRetries, func(c *zzConn) { closes++ }, func(c *zzConn, receivePong func()) (func(), error) {
		i := sent
		sent++
		if i < len(fail) && fail[i] {
			return nil, errZZSend
		}
		return func() {}, nil
	})
	t := int64(1 << 41)
	symSetNow(time.Unix(0, t))
	m := New(time.Second, ka.OnInactive)
	for round := uint32(1); round <= maxRetries+1; round++ {
		symAssert(closes == 0, "the connection is not closed while at most maxRetries pings are unanswered")
		t += int64(2 * time.Second)
		m.CheckInactivity(time.Unix(0, t), cc)
	}
	symCover("silent-rounds")
	symAssert(closes == 1, "a silent connection is closed once more than maxRetries consecutive pings went unanswered, sent or not")
}

var errZZSend = zzErr("cannot send ping")

type zzErr string

func (e zzErr) Error() string { return string(e) }
