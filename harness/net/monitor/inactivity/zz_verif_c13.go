package inactivity

import "time"

// C13 for keep-alive pings: the state registered for a ping (its cancel function stands for the token handler /
// message-ID continuation the connection keeps for it) is released when the ping is answered, superseded by the
// next keep-alive round, or when keep-alive gives up - never left behind on a connection that lives on
func zzC13_keepalive_ping() {
	maxRetries := uint32(1 + symChoose("maxRetries", 3))
	cc := &zzConn{}
	closes := 0
	var pings []*zzPing
	ka := NewKeepAlive(maxRetries, func(c *zzConn) { closes++ }, func(c *zzConn, receivePong func()) (func(), error) {
		p := &zzPing{pong: receivePong}
		pings = append(pings, p)
		return func() { p.cancelled = true }, nil
	})
	t := int64(1 << 41)
	symSetNow(time.Unix(0, t))
	m := New(time.Second, ka.OnInactive)
	for i := 0; i < symParam("rounds", 4) && closes == 0; i++ {
		t += int64(2 * time.Second)
		m.CheckInactivity(time.Unix(0, t), cc)
		if closes > 0 {
			break
		}
		for j := 0; j+1 < len(pings); j++ {
			symAssert(pings[j].cancelled, "the state of a keep-alive ping is released once the next round has superseded it")
		}
		if symChoose("answered", 2) == 1 {
			// the pong arrives: the connection releases the ping's state itself and tells keep-alive
			p := pings[len(pings)-1]
			p.pong()
			p.cancelled = true
			symSetNow(time.Unix(0, t))
			m.Notify()
			symCover("answered")
		} else {
			symCover("ignored")
		}
	}
	if closes > 0 {
		symCover("gave-up")
		for _, p := range pings {
			symAssert(p.cancelled, "when keep-alive gives up no ping state is left behind")
		}
	}
}
