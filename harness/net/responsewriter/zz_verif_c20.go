package responsewriter

import (
	"context"

	"github.com/plgd-dev/go-coap/v3/message"
	"github.com/plgd-dev/go-coap/v3/message/codes"
	"github.com/plgd-dev/go-coap/v3/message/pool"
)

type zzClient struct{ released int }

func (c *zzClient) ReleaseMessage(m *pool.Message) { c.released++ }

func zzC20w_rfc(code uint16, v uint32) bool {
	if code > 255 {
		return false
	}
	switch code >> 5 {
	case 2:
		return v&2 != 0
	case 4:
		return v&8 != 0
	case 5:
		return v&16 != 0
	}
	return false
}

// the response-writer gate: SetResponse refuses exactly the suppressed classes and leaves the response untouched then
func zzC20_writer() {
	n := symChoose("valuelen", 6) // 0..4 value bytes; 5 = request without No-Response option
	var opts []message.Option
	present := n < 5
	v := uint32(0)
	if present {
		val := symBytes("val", n)
		for _, b := range val {
			v = v<<8 | uint32(b)
		}
		opts = append(opts, message.Option{ID: message.ContentFormat, Value: []byte{0}})
		opts = append(opts, message.Option{ID: message.NoResponse, Value: val})
		// the request may carry options with higher numbers than No-Response (258) as well
		switch symChoose("higher-option", 3) {
		case 1:
			opts = append(opts, message.Option{ID: 292, Value: []byte{1}}) // Request-Tag
			symCover("followed-by-higher-option")
		case 2:
			opts = append(opts, message.Option{ID: 2049, Value: []byte{1}}, message.Option{ID: 65001, Value: nil})
			symCover("followed-by-higher-option")
		}
	} else {
		opts = append(opts, message.Option{ID: message.ContentFormat, Value: []byte{0}})
	}
	resp := pool.NewMessage(context.Background())
	w := New(resp, &zzClient{}, opts...)
	code := symU16("code")
	symAssume(code <= 255)
	// the handler may pass response options along
	var ropts []message.Option
	if symChoose("response-options", 2) == 1 {
		ropts = []message.Option{{ID: message.ETag, Value: []byte{0xca, 0xfe}}, {ID: message.MaxAge, Value: []byte{60}}}
		symCover("with-response-options")
	}
	err := w.SetResponse(codes.Code(code), message.TextPlain, nil, ropts...)
	symObserve("refused", err != nil)
	symObserve("respcode", uint16(w.Message().Code()))
	if present && zzC20w_rfc(code, v) {
		symCover("suppressed")
		symAssert(err != nil, "writer refuses a response of a suppressed class")
		symAssert(w.Message().Code() == codes.Empty, "refused response leaves the message unmodified")
		symAssert(!w.Message().IsModified() && len(w.Message().Options()) == 0, "a refused response leaves nothing behind that would make the transport send it")
	} else {
		symCover("wanted")
		symAssert(err == nil, "writer accepts a response that was not suppressed")
		symAssert(uint16(w.Message().Code()) == code, "accepted response carries the code")
		// the handler tries another code afterwards: a refusal changes nothing of the response already accepted
		code2 := symU16("code2")
		symAssume(code2 <= 255)
		err2 := w.SetResponse(codes.Code(code2), message.TextPlain, nil, ropts...)
		if present && zzC20w_rfc(code2, v) {
			symCover("second-refused")
			symAssert(err2 != nil, "a later response of a suppressed class is refused")
			symAssert(uint16(w.Message().Code()) == code && w.Message().IsModified(), "and the response accepted before stays as it was: it will still be sent")
		} else {
			symAssert(err2 == nil && uint16(w.Message().Code()) == code2, "a later response of a class that is wanted replaces the earlier one")
		}
	}
}
