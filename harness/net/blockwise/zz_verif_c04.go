package blockwise

import (
	"bytes"
	"context"
	"time"

	"github.com/plgd-dev/go-coap/v3/message"
	"github.com/plgd-dev/go-coap/v3/message/codes"
	"github.com/plgd-dev/go-coap/v3/message/pool"
	"github.com/plgd-dev/go-coap/v3/net/responsewriter"
)

// C04 — two BlockWise instances (requester side and responder side) joined by a synchronous relay: a message
// produced by one side is handed to the other side's Handle, the reply goes back, until the receiving application
// handler of either side has been invoked or no reply is produced.

type zzBWClient struct{ acquired, released int }

func (c *zzBWClient) AcquireMessage(ctx context.Context) *pool.Message {
	c.acquired++
	return pool.NewMessage(ctx)
}
func (c *zzBWClient) ReleaseMessage(m *pool.Message) { c.released++ }

type zzLink struct {
	cli, srv       *BlockWise[*zzBWClient]
	cc, sc         *zzBWClient
	szxC, szxS     SZX
	max            uint32
	srvApp         func(w *responsewriter.ResponseWriter[*zzBWClient], r *pool.Message)
	srvDeliveries  int
	cliDeliveries  int
	relayed        int
	faults         int
	maxFaults      int
	lastToServer   *pool.Message
	forge          bool
	slow bool // the link is slow: before the second round trip more time passes than the requester's transfer timeout
}

func zzBody(m *pool.Message) []byte {
	b, err := m.ReadBody()
	if err != nil {
		return nil
	}
	return b
}

func zzCopyMsg(m *pool.Message) *pool.Message {
	c := pool.NewMessage(m.Context())
	c.SetCode(m.Code())
	c.SetToken(m.Token())
	c.SetType(m.Type())
	c.ResetOptionsTo(m.Options())
	if b := zzBody(m); len(b) > 0 {
		c.SetBody(bytes.NewReader(append([]byte(nil), b...)))
	}
	return c
}

// toServer hands a request to the responder side and returns its reply (nil if none)
func (l *zzLink) toServer(req *pool.Message) *pool.Message {
	w := responsewriter.New(pool.NewMessage(req.Context()), l.sc, req.Options()...)
	w.Message().SetToken(req.Token())
	l.srv.Handle(w, req, l.szxS, l.max, func(w *responsewriter.ResponseWriter[*zzBWClient], r *pool.Message) {
		l.srvDeliveries++
		l.srvApp(w, r)
	})
	if !w.Message().IsModified() {
		return nil
	}
	return w.Message()
}

// relay carries out the exchange started by the first request and returns what the requester application gets
func (l *zzLink) relay(first *pool.Message) (*pool.Message, bool) {
	msg := first
	for round := 0; round < 12; round++ {
		l.relayed++
		if l.slow && round == 1 {
			t := time.Unix(0, 1<<41).Add(2 * time.Hour)
			symSetNow(t)
			l.cli.CheckExpirations(t)
			symCover("slow-link")
		}
		fault := 0
		if l.faults < l.maxFaults {
			fault = symChoose("fault", 4) // 0 deliver, 1 deliver twice, 2 drop, 3 a stale final block arrives first
			if fault != 0 {
				l.faults++
			}
		}
		if fault == 3 {
			// a delayed final block (M=0) of an earlier, shorter exchange with the same token and a lower block
			// number reaches the responder while at least two blocks of this upload are reassembled
			if v, err := msg.GetOptionUint32(message.Block1); err == nil {
				if szx, num, _, derr := DecodeBlockOption(v); derr == nil && num >= 2 {
					symCover("stale-final-block")
					st := zzCopyMsg(msg)
					sv, _ := EncodeBlockOption(szx, num-2, false)
					st.SetOptionUint32(message.Block1, sv)
					st.SetBody(bytes.NewReader([]byte{0xEE, 0xEE, 0xEE}))
					_ = l.toServer(st)
				}
			}
		}
		if fault == 2 {
			symCover("dropped")
			return nil, false
		}
		if fault == 1 && (msg.HasOption(message.Block1) || msg.HasOption(message.Block2)) {
			// a block is duplicated on the way (duplicates of plain requests are the de-duplication layer's subject)
			symCover("duplicated")
			_ = l.toServer(zzCopyMsg(msg))
		}
		reply := l.toServer(msg)
		if reply == nil {
			return nil, false
		}
		if l.forge && round >= 1 && l.faults < l.maxFaults+1 && symChoose("forge", 2) == 1 {
			// a block of another representation of the resource (different ETag, different bytes) arrives first
			l.faults++
			symCover("forged")
			f := zzCopyMsg(reply)
			_ = f.SetETag([]byte{0xEE, 0xEE, 0xEE})
			if b := zzBody(reply); len(b) > 0 {
				nb := make([]byte, len(b))
				for i := range nb {
					nb[i] = 0xEE
				}
				f.SetBody(bytes.NewReader(nb))
			}
			fw := responsewriter.New(pool.NewMessage(f.Context()), l.cc, f.Options()...)
			fw.Message().SetToken(f.Token())
			var early *pool.Message
			l.cli.Handle(fw, f, l.szxC, l.max, func(w *responsewriter.ResponseWriter[*zzBWClient], r *pool.Message) {
				l.cliDeliveries++
				early = r
			})
			if early != nil {
				return early, true
			}
			if fw.Message().IsModified() {
				// the requester reacts to the foreign block (typically by restarting from block 0)
				msg = fw.Message()
				continue
			}
		}
		if fault == 3 {
			// the same on the way back: a stale final Block2 block with a lower number reaches the requester first
			if v, err := reply.GetOptionUint32(message.Block2); err == nil {
				if szx, num, _, derr := DecodeBlockOption(v); derr == nil && num >= 2 {
					symCover("stale-final-block")
					st := zzCopyMsg(reply)
					sv, _ := EncodeBlockOption(szx, num-2, false)
					st.SetOptionUint32(message.Block2, sv)
					st.SetBody(bytes.NewReader([]byte{0xEE, 0xEE, 0xEE}))
					sw := responsewriter.New(pool.NewMessage(st.Context()), l.cc, st.Options()...)
					sw.Message().SetToken(st.Token())
					var early *pool.Message
					l.cli.Handle(sw, st, l.szxC, l.max, func(w *responsewriter.ResponseWriter[*zzBWClient], r *pool.Message) {
						l.cliDeliveries++
						early = r
					})
					if early != nil {
						return early, true
					}
				}
			}
		}
		var delivered *pool.Message
		w := responsewriter.New(pool.NewMessage(reply.Context()), l.cc, reply.Options()...)
		w.Message().SetToken(reply.Token())
		l.cli.Handle(w, reply, l.szxC, l.max, func(w *responsewriter.ResponseWriter[*zzBWClient], r *pool.Message) {
			l.cliDeliveries++
			delivered = r
		})
		if delivered != nil {
			return delivered, true
		}
		if !w.Message().IsModified() {
			return nil, false
		}
		msg = w.Message()
	}
	symAssert(false, "the exchange terminates within the expected number of round trips")
	return nil, false
}

func zzNewLink(szxC, szxS SZX) *zzLink {
	// the whole exchange happens at one instant: expiry in the middle of a transfer is the subject of zzC04_stale
	symSetNow(time.Unix(0, 1<<41))
	l := &zzLink{cc: &zzBWClient{}, sc: &zzBWClient{}, szxC: szxC, szxS: szxS, max: 1152}
	l.cli = New(l.cc, time.Hour, func(error) {}, nil)
	l.srv = New(l.sc, time.Hour, func(error) {}, nil)
	return l
}

func zzAllEE(b []byte) bool {
	ok := true
	for _, x := range b {
		if x != 0xEE {
			ok = false
		}
	}
	return ok
}

func zzBodyLen(name string, block int) int {
	// every size within +/-1 of a block boundary up to two blocks, plus 0 and 1
	return []int{0, 1, block - 1, block, block + 1, 2*block - 1, 2 * block, 2*block + 1}[symChoose(name, 8)]
}

// Block2: a GET whose response body is transferred block-wise to the requester
func zzC04_download() {
	szxC := SZX(symChoose("szxC", symParam("szx", 2)))
	szxS := SZX(symChoose("szxS", symParam("szx", 2)))
	l := zzNewLink(szxC, szxS)
	l.maxFaults = symParam("faults", 0)
	l.forge = symParam("forge", 0) == 1
	small := 16
	if szxC > 0 && szxS > 0 {
		small = 32
	}
	n := zzBodyLen("bodylen", small)
	body := symBytes("body", n)
	etag := symBytes("etag", 2)
	l.srvApp = func(w *responsewriter.ResponseWriter[*zzBWClient], r *pool.Message) {
		_ = w.SetResponse(codes.Content, message.AppOctets, bytes.NewReader(body), message.Option{ID: message.ETag, Value: etag})
	}
	req := pool.NewMessage(context.Background())
	req.SetCode(codes.GET)
	req.SetToken(message.Token{0xD1, 0xD2})
	_ = req.SetPath("/big")
	var got *pool.Message
	var ok bool
	resp, err := l.cli.Do(req, szxC, l.max, func(r *pool.Message) (*pool.Message, error) {
		got, ok = l.relay(r)
		return got, nil
	})
	_ = resp
	symObserve("completed", ok)
	symAssert(err == nil, "Do returns without error when the relay does")
	if ok && got.Code() != codes.Content {
		// the exchange ended with an error response: allowed, as long as no body is presented
		symCover("error-response")
		symAssert(len(zzBody(got)) == 0, "an error outcome carries no partial body")
	} else if ok {
		symCover("completed")
		symAssert(bytes.Equal(zzBody(got), body) || l.forge && len(zzBody(got)) > 0 && zzBody(got)[0] == 0xEE && zzAllEE(zzBody(got)), "the requester receives exactly the bytes the responder application supplied (or, with a forged representation, exactly that one - never a mixture)")
		symAssert(l.cliDeliveries == 1, "the response is delivered to the requester exactly once")
		symAssert(got.Code() == codes.Content, "the response code is preserved")
		e, eerr := got.ETag()
		symAssert(eerr == nil && (bytes.Equal(e, etag) || l.forge), "the other options of the response are preserved")
		symAssert(bytes.Equal(got.Token(), []byte{0xD1, 0xD2}), "the token is preserved")
	} else {
		symAssert(l.cliDeliveries == 0, "an exchange that did not complete delivers nothing to the requester")
	}
	if n > 2*small-2 {
		symCover("three-blocks")
	}
	// housekeeping beyond every deadline empties both sides, also after an abandoned transfer
	far := time.Unix(0, 1<<60)
	symSetNow(far)
	l.cli.CheckExpirations(far)
	l.srv.CheckExpirations(far)
	symAssert(l.cli.receivingMessagesCache.Length() == 0 && l.cli.sendingMessagesCache.Length() == 0 && l.srv.receivingMessagesCache.Length() == 0 && l.srv.sendingMessagesCache.Length() == 0, "no block-wise reassembly or send buffer outlives the exchange and its deadline")
}

// C13 view of the same relay: abandoned and completed transfers leave nothing behind after housekeeping
func zzC13_blockwise_download() { zzC04_download() }
func zzC13_blockwise_upload()   { zzC04_upload() }

// Block1: a POST whose request body is transferred block-wise to the responder
func zzC04_upload() {
	szxC := SZX(symChoose("szxC", symParam("szx", 2)))
	szxS := SZX(symChoose("szxS", symParam("szx", 2)))
	l := zzNewLink(szxC, szxS)
	l.maxFaults = symParam("faults", 0)
	small := 16
	if szxC > 0 && szxS > 0 {
		small = 32
	}
	n := zzBodyLen("bodylen", small)
	body := symBytes("body", n)
	var seen []byte
	var seenCF message.MediaType
	l.srvApp = func(w *responsewriter.ResponseWriter[*zzBWClient], r *pool.Message) {
		seen = append([]byte(nil), zzBody(r)...)
		seenCF, _ = r.ContentFormat()
		_ = w.SetResponse(codes.Changed, message.TextPlain, nil)
	}
	rctx := context.Background()
	if symChoose("slow-link", 2) == 1 {
		l.maxFaults = 0
		// a slow link: the caller's deadline is far away, the requester's transfer timeout is 1 hour, the second round trip
		// starts after 2 hours (the responder is more patient still) - the request's own deadline governs
		l.slow = true
		l.srv = New(l.sc, 100*time.Hour, func(error) {}, nil)
		var cancel context.CancelFunc
		rctx, cancel = context.WithDeadline(rctx, time.Unix(0, 4102444800000000000)) // far beyond the transfer timeout (and, for the native replay, in the real future)
		defer cancel()
	}
	req := pool.NewMessage(rctx)
	req.SetCode(codes.POST)
	req.SetToken(message.Token{0xE1})
	_ = req.SetPath("/up")
	req.SetContentFormat(message.AppCBOR)
	req.SetBody(bytes.NewReader(body))
	var got *pool.Message
	var ok bool
	_, err := l.cli.Do(req, szxC, l.max, func(r *pool.Message) (*pool.Message, error) {
		got, ok = l.relay(r)
		return got, nil
	})
	symObserve("completed", ok)
	symAssert(err == nil, "Do returns without error when the relay does")
	if ok {
		symAssert(got.Code() != codes.Continue, "an interim 2.31 Continue is never presented to the requester as the outcome of the exchange")
	}
	if l.slow {
		symAssert(ok && got.Code() == codes.Changed && l.srvDeliveries == 1, "a transfer that stays within the request's own deadline completes")
	}
	if ok && got.Code() != codes.Changed {
		symCover("error-response")
		symAssert(l.srvDeliveries == 0 || bytes.Equal(seen, body), "an error outcome never follows the delivery of a partial body")
	} else if ok {
		symCover("completed")
		symAssert(l.srvDeliveries == 1, "the request body is delivered to the responder application exactly once")
		symAssert(bytes.Equal(seen, body), "the responder application receives exactly the bytes the requester supplied")
		symAssert(seenCF == message.AppCBOR, "the other options of the request are preserved")
		symAssert(got.Code() == codes.Changed, "the requester receives the application's response")
	} else {
		symAssert(l.srvDeliveries == 0 || bytes.Equal(seen, body), "a partial body is never presented as complete")
	}
	// housekeeping beyond every deadline empties both sides
	far := time.Unix(0, 1<<60)
	l.cli.CheckExpirations(far)
	l.srv.CheckExpirations(far)
	symAssert(l.cli.receivingMessagesCache.Length() == 0 && l.cli.sendingMessagesCache.Length() == 0 && l.srv.receivingMessagesCache.Length() == 0 && l.srv.sendingMessagesCache.Length() == 0, "no block-wise reassembly or send buffer outlives the exchange and its deadline")
}

// two uploads with different tokens whose blocks arrive interleaved at one responder: bodies never mix
func zzC04_two_transfers() {
	l := zzNewLink(0, 0)
	tokA, tokB := message.Token{0xA1, 0xA2}, message.Token{0xB1}
	if symChoose("tokens", 2) == 1 {
		// tokens that differ only in length / leading zero bytes are still different tokens
		tokA, tokB = message.Token{0x00, 0x2a}, message.Token{0x2a}
		symCover("lookalike-tokens")
	}
	bodyA, bodyB := symBytes("bodyA", 40), symBytes("bodyB", 40)
	var gotA, gotB []byte
	nA, nB := 0, 0
	l.srvApp = func(w *responsewriter.ResponseWriter[*zzBWClient], r *pool.Message) {
		if bytes.Equal(r.Token(), tokA) {
			nA++
			gotA = append([]byte(nil), zzBody(r)...)
		} else {
			nB++
			gotB = append([]byte(nil), zzBody(r)...)
		}
		_ = w.SetResponse(codes.Changed, message.TextPlain, nil)
	}
	block := func(tok message.Token, body []byte, num int) *pool.Message {
		m := pool.NewMessage(context.Background())
		m.SetCode(codes.POST)
		m.SetToken(tok)
		_ = m.SetPath("/up")
		lo, hi := num*16, num*16+16
		more := true
		if hi >= len(body) {
			hi, more = len(body), false
		}
		v, _ := EncodeBlockOption(SZX16, int64(num), more)
		m.SetOptionUint32(message.Block1, v)
		m.SetBody(bytes.NewReader(body[lo:hi]))
		return m
	}
	ia, ib := 0, 0
	for ia < 3 || ib < 3 {
		pickA := ia < 3
		if ia < 3 && ib < 3 {
			pickA = symChoose("next", 2) == 0
		}
		if pickA {
			_ = l.toServer(block(tokA, bodyA, ia))
			ia++
		} else {
			_ = l.toServer(block(tokB, bodyB, ib))
			ib++
		}
	}
	symCover("both-sent")
	symAssert(nA == 1 && nB == 1, "each upload is delivered to the application exactly once")
	symAssert(bytes.Equal(gotA, bodyA), "transfer A delivers exactly A's bytes (concurrent transfers never mix)")
	symAssert(bytes.Equal(gotB, bodyB), "transfer B delivers exactly B's bytes (concurrent transfers never mix)")
}

// two downloads with different tokens served by one responder, the blocks requested in a decided interleaving and
// each block looked at only after the next one (of the other transfer) has been produced - as happens when block
// messages wait in the transport: every block carries the bytes of its own representation at its own offset
func zzC04_two_downloads() {
	l := zzNewLink(0, 0)
	tokA, tokB := message.Token{0xA1, 0xA2}, message.Token{0xB1}
	bodyA, bodyB := symBytes("bodyA", 40), symBytes("bodyB", 40)
	l.srvApp = func(w *responsewriter.ResponseWriter[*zzBWClient], r *pool.Message) {
		if bytes.Equal(r.Token(), tokA) {
			_ = w.SetResponse(codes.Content, message.AppOctets, bytes.NewReader(bodyA))
		} else {
			_ = w.SetResponse(codes.Content, message.AppOctets, bytes.NewReader(bodyB))
		}
	}
	get := func(tok message.Token, num int) *pool.Message {
		m := pool.NewMessage(context.Background())
		m.SetCode(codes.GET)
		m.SetToken(tok)
		_ = m.SetPath("/down")
		v, _ := EncodeBlockOption(SZX16, int64(num), false)
		m.SetOptionUint32(message.Block2, v)
		return m
	}
	type held struct {
		a   bool
		num int
		m   *pool.Message
	}
	var prev *held
	check := func(h *held) {
		if h == nil {
			return
		}
		body := bodyB
		if h.a {
			body = bodyA
		}
		lo, hi := h.num*16, h.num*16+16
		if hi > len(body) {
			hi = len(body)
		}
		symAssert(h.m != nil && bytes.Equal(zzBody(h.m), body[lo:hi]), "a block carries the bytes of its own transfer at its own offset, also when other blocks were produced after it")
	}
	ia, ib := 0, 0
	for ia < 3 || ib < 3 {
		pickA := ia < 3
		if ia < 3 && ib < 3 {
			pickA = symChoose("next", 2) == 0
		}
		var h *held
		if pickA {
			h = &held{true, ia, l.toServer(get(tokA, ia))}
			ia++
		} else {
			h = &held{false, ib, l.toServer(get(tokB, ib))}
			ib++
		}
		check(prev) // the previous block is read only now
		prev = h
	}
	check(prev)
	symCover("both-served")
}

// a final block that arrives after the reassembly state has expired must not be presented as the complete body
func zzC04_stale() {
	l := zzNewLink(0, 0)
	body := symBytes("body", 40)
	l.srvApp = func(w *responsewriter.ResponseWriter[*zzBWClient], r *pool.Message) {
		_ = w.SetResponse(codes.Content, message.AppOctets, bytes.NewReader(body))
	}
	req := pool.NewMessage(context.Background())
	req.SetCode(codes.GET)
	req.SetToken(message.Token{0xD1})
	_ = req.SetPath("/big")
	var deliveredBody []byte
	delivered := 0
	_, _ = l.cli.Do(req, 0, l.max, func(r *pool.Message) (*pool.Message, error) {
		msg := r
		for round := 0; round < 4; round++ {
			reply := l.toServer(msg)
			if reply == nil {
				break
			}
			if round == symParam("expire-after", 2) {
				// the peer was slow: more than the block-wise expiration passes before this block arrives
				symSetNow(time.Unix(0, 1<<41+int64(2*time.Hour)))
				if symChoose("swept", 2) == 1 {
					l.cli.CheckExpirations(time.Unix(0, 1<<41+int64(2*time.Hour)))
				} else {
					// the housekeeping sweep has not run yet: the expired entry is still in the cache
					symCover("expired-unswept")
				}
				symCover("expired")
			}
			w := responsewriter.New(pool.NewMessage(reply.Context()), l.cc, reply.Options()...)
			w.Message().SetToken(reply.Token())
			l.cli.Handle(w, reply, 0, l.max, func(w *responsewriter.ResponseWriter[*zzBWClient], m *pool.Message) {
				delivered++
				deliveredBody = zzBody(m)
			})
			if delivered > 0 || !w.Message().IsModified() {
				break
			}
			msg = w.Message()
		}
		return nil, nil
	})
	symAssert(delivered == 0 || bytes.Equal(deliveredBody, body), "a block arriving after its transfer expired is never presented as a complete body")
}

// an upload is abandoned part-way; its transfer timeout passes (with or without a housekeeping sweep); a new upload
// with the same token and another body arrives: the application receives the new body or nothing - never the old
// prefix continued by new blocks
func zzC04_abandoned_then_new() {
	l := zzNewLink(0, 0)
	tok := message.Token{0xE1, 0xE2}
	oldBody, newBody := symBytes("old", 40), symBytes("new", 40)
	var got [][]byte
	l.srvApp = func(w *responsewriter.ResponseWriter[*zzBWClient], r *pool.Message) {
		got = append(got, append([]byte(nil), zzBody(r)...))
		_ = w.SetResponse(codes.Changed, message.TextPlain, nil)
	}
	block := func(body []byte, num int) *pool.Message {
		m := pool.NewMessage(context.Background())
		m.SetCode(codes.POST)
		m.SetToken(tok)
		_ = m.SetPath("/up")
		lo, hi := num*16, num*16+16
		more := true
		if hi >= len(body) {
			hi, more = len(body), false
		}
		v, _ := EncodeBlockOption(SZX16, int64(num), more)
		m.SetOptionUint32(message.Block1, v)
		m.SetBody(bytes.NewReader(body[lo:hi]))
		return m
	}
	sent := 1 + symChoose("blocks-before-abandon", 2) // 1 or 2 of the 3 blocks
	for k := 0; k < sent; k++ {
		_ = l.toServer(block(oldBody, k))
	}
	symAssert(len(got) == 0, "nothing is delivered from an incomplete upload")
	// the transfer timeout (1 h) passes
	late := time.Unix(0, 1<<41+int64(2*time.Hour))
	symSetNow(late)
	if symChoose("swept", 2) == 1 {
		l.srv.CheckExpirations(late)
		symCover("swept")
	} else {
		symCover("not-swept-yet")
	}
	for k := 0; k < 3; k++ {
		_ = l.toServer(block(newBody, k))
	}
	symAssert(len(got) <= 1, "at most one body is delivered")
	if len(got) == 1 {
		symCover("new-delivered")
		symAssert(bytes.Equal(got[0], newBody), "the application receives the new upload's body - never the expired prefix continued by new blocks")
	}
}

// a notification of a live observation arrives block-wise: the first block carries the Observe option, the layer
// fetches the remaining blocks with a GET under a token of its own; the assembled notification is delivered once,
// with the exact body, and when it has been delivered nothing of the transfer is left in either cache - without
// waiting for any expiry
func zzC13_blockwise_observe() {
	symSetNow(time.Unix(0, 1<<41))
	cc := &zzBWClient{}
	obsTok := message.Token{0x0B, 0x5E}
	mkObsReq := func() *pool.Message {
		m := pool.NewMessage(context.Background())
		m.SetCode(codes.GET)
		m.SetToken(obsTok)
		_ = m.SetPath("/obs")
		m.SetObserve(0)
		return m
	}
	cli := New(cc, time.Hour, func(error) {}, func(token message.Token) (*pool.Message, bool) {
		if bytes.Equal(token, obsTok) {
			return mkObsReq(), true
		}
		return nil, false
	})
	body := symBytes("body", 40)
	var got [][]byte
	var gotTok []byte
	next := func(w *responsewriter.ResponseWriter[*zzBWClient], r *pool.Message) {
		got = append(got, append([]byte(nil), zzBody(r)...))
		gotTok = append([]byte(nil), r.Token()...)
	}
	block := func(tok message.Token, num int, observe bool) *pool.Message {
		m := pool.NewMessage(context.Background())
		m.SetCode(codes.Content)
		m.SetToken(tok)
		lo, hi := num*16, num*16+16
		more := true
		if hi >= len(body) {
			hi, more = len(body), false
		}
		if observe {
			m.SetObserve(7)
		}
		_ = m.SetETag([]byte{1, 2})
		v, _ := EncodeBlockOption(SZX16, int64(num), more)
		m.SetOptionUint32(message.Block2, v)
		m.SetContentFormat(message.AppOctets)
		m.SetBody(bytes.NewReader(body[lo:hi]))
		return m
	}
	msg := block(obsTok, 0, true)
	for round := 0; round < 4 && len(got) == 0; round++ {
		w := responsewriter.New(pool.NewMessage(msg.Context()), cc, msg.Options()...)
		w.Message().SetToken(msg.Token())
		cli.Handle(w, msg, SZX16, 1152, next)
		if len(got) > 0 {
			break
		}
		symAssert(w.Message().IsModified(), "the layer asks for the next block")
		if !w.Message().IsModified() {
			return
		}
		req := w.Message()
		v, err := req.GetOptionUint32(message.Block2)
		symAssert(err == nil && req.Code() == codes.GET, "with a GET carrying a Block2 option")
		if err != nil {
			return
		}
		_, num, _, _ := DecodeBlockOption(v)
		symAssert(!bytes.Equal(req.Token(), obsTok), "under a token of its own (RFC 7959 section 2.6)")
		msg = block(req.Token(), int(num), false)
	}
	symCover("notification-assembled")
	symAssert(len(got) == 1 && bytes.Equal(got[0], body), "the block-wise notification is delivered once with exactly the notified body")
	symAssert(bytes.Equal(gotTok, obsTok), "under the observation's token")
	symAssert(cli.sendingMessagesCache.Length() == 0 && cli.receivingMessagesCache.Length() == 0, "a completed block-wise notification leaves no reassembly or send buffer behind (without waiting for expiry)")
}

func zzC04_selftest() {
	l := zzNewLink(0, 0)
	body := symBytes("body", 17)
	l.srvApp = func(w *responsewriter.ResponseWriter[*zzBWClient], r *pool.Message) {
		_ = w.SetResponse(codes.Content, message.AppOctets, bytes.NewReader(body))
	}
	req := pool.NewMessage(context.Background())
	req.SetCode(codes.GET)
	req.SetToken(message.Token{1})
	var got *pool.Message
	var ok bool
	_, _ = l.cli.Do(req, 0, l.max, func(r *pool.Message) (*pool.Message, error) {
		got, ok = l.relay(r)
		return got, nil
	})
	symAssert(!ok || !bytes.Equal(zzBody(got), body), "selftest: must fail (the transfer completes with the right body)")
}
