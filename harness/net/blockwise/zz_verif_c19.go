package blockwise

// C19 — block option value codec is the RFC 7959 §2.2 mapping on its whole domain.
// Oracle: the RFC layout written arithmetically (NUM = v>>4, M = v&8, SZX = v&7; value at most 3 bytes).

// decoder: defined exactly on the 24-bit values, returns the RFC triple
func zzC19_decode() {
	v := symU32("v")
	szx, num, more, err := DecodeBlockOption(v)
	symObserve("err", err != nil)
	symObserve("szx", uint8(szx))
	symObserve("num", num)
	symObserve("more", more)
	symKnown("C19-blocknum-top8", (v>>4) > 0xffff7 && v <= 0xffffff)
	if v <= 0xFFFFFF {
		symCover("in-domain")
		symAssert(err == nil, "decode defined on every 24-bit value")
		symAssert(uint32(szx) == v&7, "decode: SZX is the low 3 bits")
		symAssert(num == int64(v>>4), "decode: NUM is the value shifted right by 4")
		symAssert(more == (v&8 != 0), "decode: M is bit 3")
	} else {
		symCover("out-of-domain")
		symAssert(err != nil, "decode refuses values wider than 24 bits")
	}
}

// encoder: accepts exactly szx 0..7 and a 20-bit block number, returns the RFC value
func zzC19_encode() {
	szx := symU8("szx")
	num := symI64("num")
	more := symBool("more")
	v, err := EncodeBlockOption(SZX(szx), num, more)
	symObserve("err", err != nil)
	symObserve("v", v)
	symKnown("C19-blocknum-top8", num > 0xffff7 && num <= 0xfffff)
	if szx <= 7 && num >= 0 && num < (1<<20) {
		symCover("in-domain")
		symAssert(err == nil, "encode accepts every (szx 0..7, 20-bit num, m) triple")
		m := uint32(0)
		if more {
			m = 8
		}
		symAssert(v == uint32(num)<<4|m|uint32(szx), "encode: RFC 7959 layout")
		symAssert(v <= 0xFFFFFF, "encode: result fits 3 bytes")
	} else {
		symCover("out-of-domain")
		symAssert(err != nil, "encode refuses out-of-domain arguments instead of wrapping")
	}
}

// mutual inverses, both directions
func zzC19_roundtrip() {
	szx := symU8("szx")
	num := symI64("num")
	more := symBool("more")
	symKnown("C19-blocknum-top8", num > 0xffff7 && num <= 0xfffff)
	v, err := EncodeBlockOption(SZX(szx), num, more)
	if err == nil {
		symCover("encoded")
		s2, n2, m2, err2 := DecodeBlockOption(v)
		symAssert(err2 == nil, "decode accepts what encode produced")
		symAssert(uint8(s2) == szx && n2 == num && m2 == more, "decode(encode(t)) == t")
	}
	w := symU32("w")
	symKnown("C19-blocknum-top8", (w>>4) > 0xffff7 && w <= 0xffffff)
	s3, n3, m3, err3 := DecodeBlockOption(w)
	if err3 == nil {
		symCover("decoded")
		w2, err4 := EncodeBlockOption(s3, n3, m3)
		symAssert(err4 == nil, "encode accepts what decode produced")
		symAssert(w2 == w, "encode(decode(v)) == v")
	}
}

// byte sizes
func zzC19_size() {
	s := symU8("s")
	sz := SZX(s).Size()
	symObserve("size", sz)
	if s <= 6 {
		symCover("plain")
		symAssert(sz == int64(1)<<(uint(s)+4), "Size(s) == 2^(s+4) for s in 0..6")
	} else if s == 7 {
		symCover("bert")
		symAssert(sz == 1024, "Size(BERT) == 1024")
	} else {
		symAssert(sz < 0, "Size of an invalid exponent is negative")
	}
	max := symU32("max")
	if s <= 7 {
		b := bufferSize(SZX(s), max)
		symObserve("bufsize", b)
		if s < 7 {
			symAssert(b == sz, "bufferSize == Size below BERT")
		} else {
			symAssert(b%1024 == 0, "BERT buffer is a whole multiple of 1024")
			symAssert(b <= int64(max), "BERT buffer bounded by the maximum message size")
			symAssert(int64(max)-b < 1024, "BERT buffer is the largest such multiple")
		}
	}
}

// vacuity guard: an assertion that is false must come back violated
func zzC19_selftest() {
	v := symU32("v")
	_, _, _, err := DecodeBlockOption(v)
	symAssert(err == nil, "selftest: must fail (decode refuses some inputs)")
}
