package limitparallelrequests

import (
	"context"
	"sync"

	"github.com/plgd-dev/go-coap/v3/message"
	"github.com/plgd-dev/go-coap/v3/message/pool"
)

// C16 — R requests over 1-2 paths, limits from {1,2}; a controller decides the order of finish / cancel events.

type zzReq struct {
	path     int
	cancel   context.CancelFunc
	finish   chan struct{}
	admitted int // admission order (1-based), 0 = not admitted
	done     bool
	err      error
	canceled bool
	finished bool
}

func zzQueued(l *LimitParallelRequests, key uint64) int {
	n := 0
	if q, ok := l.endpointQueues.Load(key); ok {
		n = int(q.processedCounter) + len(q.orderedRequest)
	}
	return n
}

func zzC16_limits() {
	R := symParam("requests", 3)
	total := int64(1 + symChoose("limit", 2))
	perEP := int64(1 + symChoose("eplimit", 2))
	if symParam("fifo", 0) == 1 {
		symAssume(total == 2 && perEP == 1)
	}
	paths := []string{"/", "/b"} // the root resource (no Uri-Path option at all) is a target path like any other
	npaths := symParam("paths", 1)
	reqs := make([]*zzReq, R)
	inflight := 0
	perPath := [2]int{}
	order := 0
	var mu sync.Mutex // protects the gauges (held only inside do)
	do := func(req *pool.Message) (*pool.Message, error) {
		i := int(req.Token()[0])
		r := reqs[i]
		mu.Lock()
		inflight++
		perPath[r.path]++
		order++
		r.admitted = order
		symAssert(int64(inflight) <= total, "requests in flight never exceed the total limit")
		symAssert(int64(perPath[r.path]) <= perEP, "requests in flight on one path never exceed the per-endpoint limit")
		mu.Unlock()
		<-r.finish
		mu.Lock()
		inflight--
		perPath[r.path]--
		mu.Unlock()
		return nil, nil
	}
	// the observe-registration entry point takes the same two gates
	doObs := func(req *pool.Message, observeFunc func(req *pool.Message)) (Observation, error) {
		_, err := do(req)
		return nil, err
	}
	viaObserve := symParam("api", 0) == 1
	l := New(total, perEP, do, doObs)
	keys := make([]uint64, R)
	var wg sync.WaitGroup
	arrived := 0
	arrive := func() {
		i := arrived
		arrived++
		ctx, cancel := context.WithCancel(context.Background())
		r := &zzReq{cancel: cancel, finish: make(chan struct{})}
		if npaths > 1 {
			r.path = symChoose("path", npaths)
		}
		reqs[i] = r
		m := pool.NewMessage(ctx)
		m.SetToken(message.Token{byte(i)})
		_ = m.SetPath(paths[r.path])
		zzDecorate(m, i)
		keys[i] = hash(m.Options())
		before := zzQueued(l, keys[i])
		wg.Add(1)
		go func() {
			if viaObserve {
				_, r.err = l.DoObserve(m, func(*pool.Message) {})
			} else {
				_, r.err = l.Do(m)
			}
			mu.Lock()
			r.done = true
			mu.Unlock()
			wg.Done()
		}()
		// arrival order is made observable: the controller continues once this request is admitted or queued
		k := keys[i]
		symWaitUntil(func() bool { return zzQueued(l, k) > before || r.done })
	}
	upfront := symParam("upfront", R)
	for arrived < upfront {
		arrive()
	}
	// controller: let a request arrive, finish or cancel requests, in every decided order
	for step := 0; step < 3*R; step++ {
		var cands []int // event code: i = finish i, R+i = cancel i, 2R = next arrival
		mu.Lock()
		for i := 0; i < arrived; i++ {
			r := reqs[i]
			if r.admitted > 0 && !r.finished {
				cands = append(cands, i)
			}
			if !r.canceled && !r.finished && !r.done && symParam("cancels", 1) == 1 {
				cands = append(cands, R+i)
			}
		}
		mu.Unlock()
		if arrived < R {
			cands = append(cands, 2*R)
		}
		if len(cands) == 0 {
			break
		}
		// the controller may also stop producing events: whoever still waits must then be woken by the
		// completions alone (a waiter that is only ever rescued by its own cancellation is a lost wake-up)
		waiting := false
		mu.Lock()
		for i := 0; i < arrived; i++ {
			if reqs[i].admitted == 0 && !reqs[i].done && !reqs[i].canceled {
				waiting = true
			}
		}
		mu.Unlock()
		if waiting {
			cands = append(cands, 3*R)
		}
		ev := cands[symChoose("event", len(cands))]
		if ev == 3*R {
			symCover("stopped-early")
			break
		}
		switch {
		case ev == 2*R:
			arrive()
		case ev < R:
			reqs[ev].finished = true
			close(reqs[ev].finish)
			r := reqs[ev]
			symWaitUntil(func() bool { return r.done })
		default:
			r := reqs[ev-R]
			r.canceled = true
			r.cancel()
			if r.admitted == 0 {
				// a cancelled waiter returns the context error
				symWaitUntil(func() bool { return r.done || r.admitted > 0 })
			}
		}
	}
	for arrived < R {
		arrive()
	}
	// release whatever is still running
	for _, r := range reqs {
		if !r.finished {
			r.finished = true
			close(r.finish)
		}
	}
	wg.Wait()
	symCover("all-returned")
	for _, r := range reqs {
		if r.admitted == 0 {
			symAssert(r.err != nil && r.canceled, "a request that was never admitted returned the context error of its own cancellation")
		}
	}
	// same-path waiters are admitted in arrival order
	for i := 0; i < R; i++ {
		for j := i + 1; j < R; j++ {
			// with a per-endpoint limit of 1 at most one request of a path is past the endpoint gate, so the order in
			// which the wrapped function starts is the order of admission by the endpoint queue
			if perEP == 1 && reqs[i].path == reqs[j].path && reqs[i].admitted > 0 && reqs[j].admitted > 0 && !reqs[i].canceled && !reqs[j].canceled {
				symAssert(reqs[i].admitted < reqs[j].admitted, "requests for the same path are admitted in arrival order")
			}
		}
	}
	symAssert(l.endpointQueues.Length() == 0, "no endpoint queue entry is left when all calls have returned")
	symAssert(inflight == 0, "gauge is back to zero")
	symAssert(l.limit.TryAcquire(total), "the total limit is fully available again")
	l.limit.Release(total)
	// a new request is admitted immediately
	fresh := &zzReq{finish: make(chan struct{})}
	close(fresh.finish)
	reqs = append(reqs, fresh)
	m := pool.NewMessage(context.Background())
	m.SetToken(message.Token{byte(R)})
	_ = m.SetPath("/a")
	_, err := l.Do(m)
	symAssert(err == nil && fresh.admitted > 0, "after all calls returned a new request is admitted immediately")
}

// the same through DoObserve
func zzC16_observe() { zzC16_limits() }

// arrival order with a longer queue (one holder, three waiters on one path), no cancellations
func zzC16_fifo() { zzC16_limits() }

func zzC16_selftest() {
	l := New(1, 1, func(req *pool.Message) (*pool.Message, error) { return nil, nil }, nil)
	m := pool.NewMessage(context.Background())
	_ = m.SetPath("/a")
	_, err := l.Do(m)
	symAssert(err != nil, "selftest: must fail")
}

// requests to one path differ in their other options (a conditional GET, a deregistration, another host): the
// per-endpoint limit is keyed by the target path alone
func zzDecorate(m *pool.Message, i int) {
	switch i % 4 {
	case 1:
		_ = m.SetETag([]byte{0x01})
	case 2:
		m.SetObserve(1)
	case 3:
		m.SetOptionBytes(message.IfMatch, []byte{0x02})
		m.SetOptionString(message.URIHost, "h")
	}
}

// arrival order with a cancellation among four requests on one path (limits 2 / 1): a waiter that gives up leaves the
// order of the waiters behind it unchanged
func zzC16_fifo_cancel() { zzC16_limits() }
