package client

import (
	"context"
	"sync"

	"github.com/plgd-dev/go-coap/v3/message"
	"github.com/plgd-dev/go-coap/v3/message/pool"
)

// C11 — the received-message reader: every pushed message is processed exactly once, in order while handlers
// return at once; a handler may block on a nested request (TryToReplaceLoop + wait for a later message, which is
// exactly what Conn.doInternal does) without stalling the processing of later messages.

type zzCC struct {
	done      chan struct{}
	r         *ReceivedMessageReader[*zzCC]
	mu        sync.Mutex
	count     []int
	order     []int
	seen      []chan struct{} // closed when message i has been handed to processing
	waitFor   []int           // -1: handler returns at once; j: nested request answered by message j
	completed []bool
}

func (c *zzCC) Done() <-chan struct{} { return c.done }

func (c *zzCC) ProcessReceivedMessage(req *pool.Message) {
	id := int(req.Token()[0])
	c.mu.Lock()
	c.count[id]++
	first := c.count[id] == 1
	c.order = append(c.order, id)
	c.mu.Unlock()
	if first {
		close(c.seen[id])
	}
	if j := c.waitFor[id]; j >= 0 {
		// nested blocking request issued from inside the handler
		c.r.TryToReplaceLoop()
		<-c.seen[j]
	}
	c.mu.Lock()
	c.completed[id] = true
	c.mu.Unlock()
}

func zzC11_reader() {
	M := symParam("messages", 2)
	q := symChoose("queue", symParam("queues", 3))
	cc := &zzCC{done: make(chan struct{})}
	for i := 0; i < M; i++ {
		cc.count = append(cc.count, 0)
		cc.completed = append(cc.completed, false)
		cc.seen = append(cc.seen, make(chan struct{}))
		w := -1
		if i < M-1 && symChoose("nested", 2) == 1 {
			// waits for a later message (decided which)
			w = i + 1 + symChoose("answer", M-1-i)
		}
		cc.waitFor = append(cc.waitFor, w)
	}
	cc.r = NewReceivedMessageReader(cc, q)
	for i := 0; i < M; i++ {
		m := pool.NewMessage(context.Background())
		m.SetToken(message.Token{byte(i)})
		cc.r.C() <- m
	}
	symWaitUntil(func() bool {
		all := true
		for i := 0; i < M; i++ {
			if !cc.completed[i] {
				all = false
			}
		}
		return all
	})
	symCover("all-processed")
	cc.mu.Lock()
	defer cc.mu.Unlock()
	once := true
	for i := 0; i < M; i++ {
		if cc.count[i] != 1 {
			once = false
		}
	}
	symAssert(once, "every accepted message is dispatched to processing exactly once")
	plain := true
	for i := 0; i < M; i++ {
		if cc.waitFor[i] >= 0 {
			plain = false
		}
	}
	if plain {
		symCover("plain")
		inOrder := len(cc.order) == M
		for i := 0; i < M && inOrder; i++ {
			if cc.order[i] != i {
				inOrder = false
			}
		}
		symAssert(inOrder, "while handlers return without blocking, messages are processed in arrival order")
	} else {
		symCover("nested")
	}
}

func zzC11_selftest() {
	cc := &zzCC{done: make(chan struct{})}
	cc.count = []int{0}
	cc.completed = []bool{false}
	cc.seen = []chan struct{}{make(chan struct{})}
	cc.waitFor = []int{-1}
	cc.r = NewReceivedMessageReader(cc, 1)
	m := pool.NewMessage(context.Background())
	m.SetToken(message.Token{0})
	cc.r.C() <- m
	symWaitUntil(func() bool { return cc.completed[0] })
	symAssert(cc.count[0] == 0, "selftest: must fail")
}
