package net

import (
	"context"
	"errors"
	"net"
)

// C10 / C09, the DTLS listener wrapper (the object a DTLS server's accept loop calls): accepts hand out the
// underlying listener's connections in order; a cancelled context or a closed listener ends the accept loop's wait
// with the error the servers look for; Close is idempotent and closes the underlying listener exactly once, also
// when an accept is blocked in it.

type zzFakeListener struct {
	conns   chan net.Conn
	closedC chan struct{}
	closes  int
}

func (l *zzFakeListener) Accept() (net.Conn, error) {
	select {
	case c := <-l.conns:
		return c, nil
	case <-l.closedC:
		return nil, net.ErrClosed
	}
}
func (l *zzFakeListener) Close() error {
	l.closes++
	if l.closes == 1 {
		close(l.closedC)
	}
	return nil
}
func (l *zzFakeListener) Addr() net.Addr { return nil }

type zzFakeConn struct {
	net.Conn
	id int
}

func zzC10_dtls_listener() {
	fl := &zzFakeListener{conns: make(chan net.Conn, 4), closedC: make(chan struct{})}
	l := &DTLSListener{listener: fl}
	ctx, cancel := context.WithCancel(context.Background())
	defer cancel()
	// two peers are waiting; they are accepted in order
	fl.conns <- &zzFakeConn{id: 1}
	fl.conns <- &zzFakeConn{id: 2}
	c1, err1 := l.AcceptWithContext(ctx)
	c2, err2 := l.AcceptWithContext(ctx)
	ok := err1 == nil && err2 == nil
	if ok {
		a, aok := c1.(*zzFakeConn)
		b, bok := c2.(*zzFakeConn)
		ok = aok && bok && a.id == 1 && b.id == 2
	}
	symAssert(ok, "pending connections are accepted in arrival order")
	switch symChoose("end", 3) {
	case 0: // the server context ends before the next accept
		cancel()
		_, err := l.AcceptWithContext(ctx)
		symAssert(errors.Is(err, context.Canceled), "a cancelled context ends the accept with the context's error")
		symAssert(fl.closes == 0, "and does not close the listener")
		symCover("context-cancelled")
	case 1: // the listener is closed, then accept is called
		symAssert(l.Close() == nil, "Close succeeds")
		_, err := l.AcceptWithContext(ctx)
		symAssert(errors.Is(err, ErrListenerIsClosed), "accept on a closed listener reports that the listener is closed")
		symCover("closed-before-accept")
	case 2: // an accept is blocked in the underlying listener when Close is called
		done := false
		var err error
		go func() {
			_, err = l.AcceptWithContext(ctx)
			done = true
		}()
		symIdle()
		symAssert(!done, "accept waits while nobody connects")
		symAssert(l.Close() == nil, "Close succeeds")
		symWaitUntil(func() bool { return done })
		symAssert(err != nil, "Close releases a blocked accept with an error")
		symCover("closed-during-accept")
	}
	symAssert(l.Close() == nil && l.Close() == nil, "Close can be repeated")
	symAssert(fl.closes == 1, "the underlying listener is closed exactly once")
}
