package cache

import (
	gosync "sync"
	"time"
)

// C14 (expiring cache): the expiry sweep never removes an entry that has not expired, even when it races with a
// store that replaces the expired entry; concurrent store-if-absent on an expired key has exactly one winner.

func zzC14_cache_sweep() {
	c := NewCache[uint64, int]()
	t1 := symI64("expiredAt")
	now := symI64("now")
	t2 := symI64("freshUntil")
	symAssume(t1 > 1<<40 && t1 < now && now < t2 && t2 < 1<<60)
	expired := 0
	e1 := NewElement(1, time.Unix(0, t1), func(d int) { expired++ })
	c.Store(7, e1)
	e2 := NewElement(2, time.Unix(0, t2), nil)
	symSetNow(time.Unix(0, now))
	var actual *Element[int]
	var loaded bool
	var wg gosync.WaitGroup
	wg.Add(2)
	go func() { c.CheckExpirations(time.Unix(0, now)); wg.Done() }()
	go func() { actual, loaded = c.LoadOrStore(7, e2); wg.Done() }()
	wg.Wait()
	symCover("joined")
	symAssert(!loaded && actual == e2, "store-if-absent on an expired key stores the new element")
	got := c.Load(7)
	symAssert(got == e2, "the expiry sweep never removes an entry that has not expired")
	symAssert(expired <= 1, "the expiry callback runs at most once per element")
}

func zzC14_cache_loadorstore() {
	c := NewCache[uint64, int]()
	t1 := symI64("validUntil")
	now := symI64("now")
	symAssume(t1 > 1<<40 && t1 < 1<<60 && now > 1<<40 && now < 1<<60)
	e0 := NewElement(0, time.Unix(0, t1), nil)
	c.Store(7, e0)
	symSetNow(time.Unix(0, now))
	ea := NewElement(1, time.Unix(0, 1<<60), nil)
	eb := NewElement(2, time.Unix(0, 1<<60), nil)
	var ra, rb *Element[int]
	var la, lb bool
	var wg gosync.WaitGroup
	wg.Add(2)
	go func() { ra, la = c.LoadOrStore(7, ea); wg.Done() }()
	go func() { rb, lb = c.LoadOrStore(7, eb); wg.Done() }()
	wg.Wait()
	symCover("joined")
	if now > t1 {
		symCover("expired")
		symAssert(la != lb, "on an expired key exactly one concurrent store-if-absent reports having stored")
		symAssert(ra == rb && (ra == ea || ra == eb), "and both observe the stored element")
	} else {
		symCover("valid")
		symAssert(la && lb && ra == e0 && rb == e0, "on a valid key both observe the existing element")
	}
}

func zzC14_cache_selftest() {
	c := NewCache[uint64, int]()
	now := symI64("now")
	symAssume(now > 1<<41 && now < 1<<60)
	c.Store(7, NewElement(1, time.Unix(0, 1<<41), nil))
	c.CheckExpirations(time.Unix(0, now))
	symAssert(c.Load(7) != nil, "selftest: must fail (the element is expired and swept)")
}
