package cache

import (
	gosync "sync"
	"time"
)

// C14 (expiring cache): the expiry sweep never removes an entry that has not expired, even when it races with a
// store that replaces the expired entry; concurrent store-if-absent on an expired key has exactly one winner.

func zzC14_cache_sweep() {
	c := NewCache[uint64, int]()
	t1 := symI64("expiredAt")
	now := symI64("now")
	t2 := symI64("freshUntil")
	symAssume(t1 > 1<<40 && t1 < now && now < t2 && t2 < 1<<60)
	expired := 0
	e1 := NewElement(1, time.Unix(0, t1), func(d int) { expired++ })
	c.Store(7, e1)
	e2 := NewElement(2, time.Unix(0, t2), nil)
	symSetNow(time.Unix(0, now))
	var actual *Element[int]
	var loaded bool
	var wg gosync.WaitGroup
	wg.Add(2)
	go func() { c.CheckExpirations(time.Unix(0, now)); wg.Done() }()
	go func() { actual, loaded = c.LoadOrStore(7, e2); wg.Done() }()
	wg.Wait()
	symCover("joined")
	symAssert(!loaded && actual == e2, "store-if-absent on an expired key stores the new element")
	got := c.Load(7)
	symAssert(got == e2, "the expiry sweep never removes an entry that has not expired")
	symAssert(expired <= 1, "the expiry callback runs at most once per element")
}

func zzC14_cache_loadorstore() {
	c := NewCache[uint64, int]()
	t1 := symI64("validUntil")
	now := symI64("now")
	symAssume(t1 > 1<<40 && t1 < 1<<60 && now > 1<<40 && now < 1<<60)
	e0 := NewElement(0, time.Unix(0, t1), nil)
	c.Store(7, e0)
	symSetNow(time.Unix(0, now))
	ea := NewElement(1, time.Unix(0, 1<<60), nil)
	eb := NewElement(2, time.Unix(0, 1<<60), nil)
	var ra, rb *Element[int]
	var la, lb bool
	var wg gosync.WaitGroup
	wg.Add(2)
	go func() { ra, la = c.LoadOrStore(7, ea); wg.Done() }()
	go func() { rb, lb = c.LoadOrStore(7, eb); wg.Done() }()
	wg.Wait()
	symCover("joined")
	if now > t1 {
		symCover("expired")
		symAssert(la != lb, "on an expired key exactly one concurrent store-if-absent reports having stored")
		symAssert(ra == rb && (ra == ea || ra == eb), "and both observe the stored element")
	} else {
		symCover("valid")
		symAssert(la && lb && ra == e0 && rb == e0, "on a valid key both observe the existing element")
	}
}

// sequential semantics of the expiring cache on two entries with symbolic deadlines (zero = never expires) and a
// symbolic sweep instant: an entry is gone after the sweep exactly when its deadline lies strictly before the
// sweep instant; its expiry callback ran exactly once with its data; Load never returns an expired entry
func zzC14_cache_seq() {
	c := NewCache[uint64, int]()
	now := symI64("now")
	symAssume(now > 1<<40 && now < 1<<60)
	var until [2]int64
	var fired [2]int
	var el [2]*Element[int]
	for k := 0; k < 2; k++ {
		until[k] = symI64("validUntil")
		symAssume(until[k] >= 0 && until[k] < 1<<60)
		kk := k
		var t time.Time // zero: no deadline
		if until[k] != 0 {
			t = time.Unix(0, until[k])
		}
		el[k] = NewElement(10+k, t, func(d int) {
			if d == 10+kk {
				fired[kk]++
			} else {
				fired[kk] += 100
			}
		})
		_, loaded := c.LoadOrStore(uint64(k), el[k])
		symAssert(!loaded, "a new key is stored")
	}
	symSetNow(time.Unix(0, now))
	for k := 0; k < 2; k++ {
		exp := until[k] != 0 && now > until[k]
		got := c.Load(uint64(k))
		if exp {
			symAssert(got == nil, "Load does not return an expired entry")
		} else {
			symAssert(got == el[k], "Load returns an entry that has not expired")
		}
		symAssert(el[k].IsExpired(time.Unix(0, now)) == exp, "an entry is expired exactly when its deadline lies strictly before now (no deadline: never)")
	}
	c.CheckExpirations(time.Unix(0, now))
	n := 0
	for k := 0; k < 2; k++ {
		exp := until[k] != 0 && now > until[k]
		_, present := c.Map.Load(uint64(k))
		if exp {
			symCover("swept")
			symAssert(!present && fired[k] == 1, "the sweep removes an expired entry and runs its expiry callback once with its data")
		} else {
			n++
			symCover("kept")
			symAssert(present && fired[k] == 0, "the sweep keeps an entry that has not expired and does not run its callback")
		}
	}
	symAssert(c.Length() == n, "nothing else is in the cache")
	c.CheckExpirations(time.Unix(0, now))
	symAssert(fired[0] <= 1 && fired[1] <= 1, "a second sweep runs no callback again")
}

func zzC14_cache_selftest() {
	c := NewCache[uint64, int]()
	now := symI64("now")
	symAssume(now > 1<<41 && now < 1<<60)
	c.Store(7, NewElement(1, time.Unix(0, 1<<41), nil))
	c.CheckExpirations(time.Unix(0, now))
	symAssert(c.Load(7) != nil, "selftest: must fail (the element is expired and swept)")
}

// a reader and a writer meet on a key whose element has expired: Load reports the expired element as absent; it never
// removes the fresh element a concurrent LoadOrStore puts there, and never fires that element's expiry callback
func zzC14_cache_load_race() {
	c := NewCache[string, int]()
	now := time.Unix(0, 1<<41)
	symSetNow(now)
	expiredFired, freshFired := 0, 0
	c.LoadOrStore("k", NewElement(1, now.Add(-time.Second), func(int) { expiredFired++ }))
	fresh := NewElement(2, now.Add(time.Hour), func(int) { freshFired++ })
	var seen *Element[int]
	done := 0
	go func() {
		seen = c.Load("k")
		done++
	}()
	go func() {
		_, _ = c.LoadOrStore("k", fresh)
		done++
	}()
	symWaitUntil(func() bool { return done == 2 })
	symCover("joined")
	symAssert(seen == nil || seen == fresh, "Load never returns an expired element")
	got := c.Load("k")
	symAssert(got == fresh, "the fresh element stored next to a concurrent Load of the expired one stays in the cache")
	symAssert(freshFired == 0, "and its expiry callback is not fired")
}
