package connections

import (
	"context"
	"net"
	"time"
)

// C18, server side: the housekeeping sweep of a stream / DTLS server (Connections.CheckExpirations) reaches every
// open connection of the table on every tick, whatever state the other connections are in - closed but not yet
// unregistered, closing and unregistering themselves during the sweep - so that each silent peer is detected at the
// first tick after its period

type zzAddr string

func (a zzAddr) Network() string { return "mem" }
func (a zzAddr) String() string  { return string(a) }

type zzConn struct {
	id       int
	ctx      context.Context
	cancel   context.CancelFunc
	checked  []time.Time
	closes   int
	table    *Connections
	dropSelf bool // the check finds the peer dead: the connection closes and unregisters itself (as Run's return does)
}

func (c *zzConn) Context() context.Context { return c.ctx }
func (c *zzConn) CheckExpirations(now time.Time) {
	c.checked = append(c.checked, now)
	if c.dropSelf {
		c.cancel()
		c.table.Delete(c)
	}
}
func (c *zzConn) Close() error         { c.closes++; c.cancel(); return nil }
func (c *zzConn) RemoteAddr() net.Addr { return zzAddr([]string{"10.0.0.1:1", "10.0.0.2:2", "10.0.0.3:3"}[c.id]) }

func zzC18_server_sweep() {
	t := New()
	n := 2 + symChoose("connections", 2)
	conns := make([]*zzConn, n)
	closed := make([]bool, n)
	for i := range conns {
		ctx, cancel := context.WithCancel(context.Background())
		conns[i] = &zzConn{id: i, ctx: ctx, cancel: cancel, table: t}
		t.Store(conns[i])
	}
	for i := range conns {
		switch symChoose("state", 3) {
		case 1: // closed, its Run has not returned yet: still registered
			conns[i].cancel()
			closed[i] = true
			symCover("closed-still-registered")
		case 2:
			conns[i].dropSelf = true
			symCover("closes-during-sweep")
		}
	}
	now := time.Unix(0, symI64("now"))
	t.CheckExpirations(now)
	for i, c := range conns {
		if closed[i] {
			symAssert(len(c.checked) == 0, "a closed connection is not checked")
		} else {
			symAssert(len(c.checked) == 1 && c.checked[0].Equal(now), "every open connection is checked exactly once per tick, with the tick's time")
		}
	}
	// the next tick: connections that dropped out are gone, the others are checked again
	t.CheckExpirations(now)
	for i, c := range conns {
		want := 2
		if closed[i] {
			want = 0
		} else if c.dropSelf {
			want = 1
		}
		symAssert(len(c.checked) == want, "the next tick checks exactly the connections that are still open")
	}
	t.Close()
	for i, c := range conns {
		if c.dropSelf && !closed[i] {
			continue // unregistered itself
		}
		symAssert(c.closes == 1, "stopping closes every registered connection once")
	}
	symCover("swept")
}

func zzC18_server_sweep_selftest() {
	t := New()
	ctx, cancel := context.WithCancel(context.Background())
	c := &zzConn{id: 0, ctx: ctx, cancel: cancel, table: t}
	t.Store(c)
	t.CheckExpirations(time.Unix(0, 1<<41))
	symAssert(len(c.checked) == 0, "selftest: must fail")
}
