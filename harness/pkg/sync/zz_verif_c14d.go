package sync

// what LoadAndDeleteAll and CopyData hand out is detached from the map - also at the boundary where the map is
// empty: later stores do not show up in a result returned earlier, and writing into a result does not change the map
func zzC14_detached() {
	m := NewMap[uint64, int]()
	n := symChoose("entries", 3) // 0, 1 or 2 entries
	for i := 0; i < n; i++ {
		m.Store(uint64(i+1), 10+i)
	}
	var got map[uint64]int
	all := symChoose("operation", 2) == 0
	if all {
		got = m.LoadAndDeleteAll()
		symCover("load-and-delete-all")
	} else {
		got = m.CopyData()
		symCover("copy-data")
	}
	symAssert(len(got) == n, "the result holds the entries of the map")
	if all {
		symAssert(m.Length() == 0, "LoadAndDeleteAll leaves the map empty")
	} else {
		symAssert(m.Length() == n, "CopyData leaves the map as it was")
	}
	before := m.Length()
	m.Store(77, 7)
	symAssert(len(got) == n, "a store after the call does not show up in the result returned earlier")
	_, in := got[77]
	symAssert(!in, "a store after the call does not show up in the result returned earlier")
	if got != nil {
		got[99] = 9
	}
	_, leaked := m.Load(99)
	symAssert(!leaked && m.Length() == before+1, "writing into the result does not change the map")
	if n == 0 {
		symCover("empty-map")
	}
}

// CopyData is one atomic step: with a writer that updates key 1 and then key 2, the copy is the map as it was
// before, between or after the two updates - never the second update without the first
func zzC14_copydata_snapshot() {
	m := NewMap[uint64, int]()
	m.Store(1, 10)
	m.Store(2, 20)
	var got map[uint64]int
	done := 0
	go func() {
		m.Store(1, 11)
		m.Store(2, 21)
		done++
	}()
	go func() {
		got = m.CopyData()
		done++
	}()
	symWaitUntil(func() bool { return done == 2 })
	symCover("joined")
	symAssert(len(got) == 2, "the copy holds both keys")
	a, b := got[1], got[2]
	symAssert((a == 10 && b == 20) || (a == 11 && b == 20) || (a == 11 && b == 21), "the copy is a state the map actually was in (an atomic snapshot)")
}
