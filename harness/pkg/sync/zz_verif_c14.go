package sync

import gosync "sync"

// C14 — linearizability of Map[uint64,int] on small concurrent histories, decided against a sequential map
// specification. Each operation records its result and logical call/return stamps; after the threads have joined,
// the harness looks for a linearisation (a total order consistent with real-time precedence) whose sequential replay
// reproduces every result.

const (
	zzStore = iota
	zzLoad
	zzLoadOrStore
	zzReplace
	zzDelete
	zzLoadAndDelete
	zzLoadOrStoreWithFunc
	zzReplaceWithFunc
	zzLength
	zzStoreWithFunc
	zzLoadWithFunc
	zzDeleteWithFunc
	zzLoadAndDeleteWithFunc
	zzLoadAndDeleteAll
	zzCopyData
	zzRange2
	zzNumOps
)

type zzOp struct {
	kind       int
	key        uint64
	val        int
	res        int  // returned value
	ok         bool // returned flag
	seen       int  // value a callback observed
	seenOK     bool
	snapP      [2]bool // whole-map results (CopyData, LoadAndDeleteAll, Range2): presence and value of keys 0, 1
	snapV      [2]int
	snapN      int
	start, end int
	cb0, cb1   int // logical window in which the operation's callback ran (0: no callback ran)
}

// zzInCallback is called by every callback: it stamps the window and lets the other goroutine run in the middle of it
func (o *zzOp) zzInCallback() {
	zzClock++
	o.cb0 = zzClock
	symYield()
	zzClock++
	o.cb1 = zzClock
}

func (o *zzOp) mutates() bool {
	switch o.kind {
	case zzLoad, zzLength, zzLoadWithFunc, zzCopyData, zzRange2:
		return false
	case zzLoadOrStore, zzLoadOrStoreWithFunc:
		return !o.ok // only when it stored: on a present key it is a read (and may take the read lock only)
	}
	return true
}

type zzSpec struct {
	present [2]bool
	val     [2]int
}

// apply runs op on the sequential specification and reports whether the recorded results match
func (s *zzSpec) apply(o *zzOp) bool {
	k := o.key
	switch o.kind {
	case zzStore:
		s.present[k], s.val[k] = true, o.val
		return true
	case zzLoad:
		if s.present[k] {
			return o.ok && o.res == s.val[k]
		}
		return !o.ok
	case zzLoadOrStore:
		if s.present[k] {
			return o.ok && o.res == s.val[k]
		}
		s.present[k], s.val[k] = true, o.val
		return !o.ok && o.res == o.val
	case zzReplace:
		m := (s.present[k] && o.ok && o.res == s.val[k]) || (!s.present[k] && !o.ok)
		s.present[k], s.val[k] = true, o.val
		return m
	case zzDelete:
		s.present[k] = false
		return true
	case zzLoadAndDelete:
		m := (s.present[k] && o.ok && o.res == s.val[k]) || (!s.present[k] && !o.ok)
		s.present[k] = false
		return m
	case zzLoadOrStoreWithFunc:
		if s.present[k] {
			// the load callback must have seen the value in the map
			return o.ok && o.seenOK && o.seen == s.val[k] && o.res == s.val[k]
		}
		s.present[k], s.val[k] = true, o.val
		return !o.ok && !o.seenOK && o.res == o.val
	case zzReplaceWithFunc:
		m := (s.present[k] && o.ok && o.seenOK && o.seen == s.val[k] && o.res == s.val[k]) || (!s.present[k] && !o.ok && !o.seenOK)
		s.present[k], s.val[k] = true, o.val
		return m
	case zzLength:
		n := 0
		if s.present[0] {
			n++
		}
		if s.present[1] {
			n++
		}
		return o.res == n
	case zzStoreWithFunc:
		s.present[k], s.val[k] = true, o.val
		return true
	case zzLoadWithFunc:
		if s.present[k] {
			return o.ok && o.seenOK && o.seen == s.val[k] && o.res == s.val[k]
		}
		return !o.ok && !o.seenOK
	case zzDeleteWithFunc:
		m := (s.present[k] && o.seenOK && o.seen == s.val[k]) || (!s.present[k] && !o.seenOK)
		s.present[k] = false
		return m
	case zzLoadAndDeleteWithFunc:
		m := (s.present[k] && o.ok && o.seenOK && o.seen == s.val[k] && o.res == s.val[k]) || (!s.present[k] && !o.ok && !o.seenOK)
		s.present[k] = false
		return m
	case zzLoadAndDeleteAll, zzCopyData, zzRange2:
		n := 0
		m := true
		for i := 0; i < 2; i++ {
			if s.present[i] {
				n++
				if !o.snapP[i] || o.snapV[i] != s.val[i] {
					m = false
				}
			} else if o.snapP[i] {
				m = false
			}
		}
		if o.snapN != n {
			m = false
		}
		if o.kind == zzLoadAndDeleteAll {
			s.present[0], s.present[1] = false, false
		}
		return m
	}
	return false
}

func (o *zzOp) snapshot(d map[uint64]int) {
	o.snapN = len(d)
	for i := uint64(0); i < 2; i++ {
		if v, ok := d[i]; ok {
			o.snapP[i], o.snapV[i] = true, v
		}
	}
}

var zzClock int

func zzRun(m *Map[uint64, int], o *zzOp) {
	zzClock++
	o.start = zzClock
	switch o.kind {
	case zzStore:
		m.Store(o.key, o.val)
	case zzLoad:
		o.res, o.ok = m.Load(o.key)
	case zzLoadOrStore:
		o.res, o.ok = m.LoadOrStore(o.key, o.val)
	case zzReplace:
		o.res, o.ok = m.Replace(o.key, o.val)
	case zzDelete:
		m.Delete(o.key)
	case zzLoadAndDelete:
		o.res, o.ok = m.LoadAndDelete(o.key)
	case zzLoadOrStoreWithFunc:
		o.res, o.ok = m.LoadOrStoreWithFunc(o.key, func(v int) int { o.seen, o.seenOK = v, true; o.zzInCallback(); return v }, func() int { o.zzInCallback(); return o.val })
	case zzReplaceWithFunc:
		o.res, o.ok = m.ReplaceWithFunc(o.key, func(old int, loaded bool) (int, bool) { o.seen, o.seenOK = old, loaded; o.zzInCallback(); return o.val, false })
	case zzLength:
		o.res = m.Length()
	case zzStoreWithFunc:
		m.StoreWithFunc(o.key, func() int { o.zzInCallback(); return o.val })
	case zzLoadWithFunc:
		o.res, o.ok = m.LoadWithFunc(o.key, func(v int) int { o.seen, o.seenOK = v, true; o.zzInCallback(); return v })
	case zzDeleteWithFunc:
		m.DeleteWithFunc(o.key, func(v int) { o.seen, o.seenOK = v, true; o.zzInCallback() })
	case zzLoadAndDeleteWithFunc:
		o.res, o.ok = m.LoadAndDeleteWithFunc(o.key, func(v int) int { o.seen, o.seenOK = v, true; o.zzInCallback(); return v })
	case zzLoadAndDeleteAll:
		o.snapshot(m.LoadAndDeleteAll())
	case zzCopyData:
		o.snapshot(m.CopyData())
	case zzRange2:
		d := map[uint64]int{}
		m.Range2(func(k uint64, v int) bool { d[k] = v; return true })
		o.snapshot(d)
	}
	zzClock++
	o.end = zzClock
}

// zzLinearizable tries every order of the operations that respects real-time precedence
func zzLinearizable(init zzSpec, ops []*zzOp) bool {
	n := len(ops)
	perm := make([]int, n)
	used := make([]bool, n)
	found := false
	var rec func(d int)
	rec = func(d int) {
		if found {
			return
		}
		if d == n {
			s := init
			ok := true
			for _, i := range perm {
				if !s.apply(ops[i]) {
					ok = false
				}
			}
			if ok {
				found = true
			}
			return
		}
		for i := 0; i < n; i++ {
			if used[i] {
				continue
			}
			// i may come next only if no unused operation finished before i started
			allowed := true
			for j := 0; j < n; j++ {
				if j != i && !used[j] && ops[j].end < ops[i].start {
					allowed = false
				}
			}
			if !allowed {
				continue
			}
			used[i] = true
			perm[d] = i
			rec(d + 1)
			used[i] = false
		}
	}
	rec(0)
	return found
}

func zzPickOp(name string) *zzOp {
	o := &zzOp{}
	o.kind = symChoose(name+"-kind", zzNumOps)
	o.key = uint64(symChoose(name+"-key", symParam("keys", 1)))
	o.val = int(symI32(name + "-val"))
	return o
}

// two threads, one or two operations each, on a map that initially holds key 0 or not
func zzC14_map() {
	zzClock = 0
	m := NewMap[uint64, int]()
	var init zzSpec
	if symChoose("initial", 2) == 1 {
		v := int(symI32("init-val"))
		m.Store(0, v)
		init.present[0], init.val[0] = true, v
	}
	nA := 1 + symChoose("opsA", symParam("opsA", 1))
	nB := 1 + symChoose("opsB", symParam("opsB", 1))
	var all []*zzOp
	var a, b []*zzOp
	for i := 0; i < nA; i++ {
		o := zzPickOp("a")
		a = append(a, o)
		all = append(all, o)
	}
	for i := 0; i < nB; i++ {
		o := zzPickOp("b")
		b = append(b, o)
		all = append(all, o)
	}
	var wg gosync.WaitGroup
	wg.Add(2)
	go func() {
		for _, o := range a {
			zzRun(m, o)
		}
		wg.Done()
	}()
	go func() {
		for _, o := range b {
			zzRun(m, o)
		}
		wg.Done()
	}()
	wg.Wait()
	symCover("joined")
	symAssert(zzLinearizable(init, all), "the concurrent history has a linearisation that matches the sequential map")
	// callbacks run inside the operation's critical section: no mutation of the map by the other goroutine begins
	// and ends while a callback is running
	atomicCb := true
	for _, x := range a {
		for _, y := range b {
			if x.cb0 != 0 && y.mutates() && y.start > x.cb0 && y.end < x.cb1 {
				atomicCb = false
			}
			if y.cb0 != 0 && x.mutates() && x.start > y.cb0 && x.end < y.cb1 {
				atomicCb = false
			}
		}
	}
	symAssert(atomicCb, "a callback runs against the value actually in the map: no write by another goroutine takes effect while it runs")
}

// the clause singled out by the property: concurrent store-if-absent on an absent key
func zzC14_loadorstore() {
	m := NewMap[uint64, int]()
	v1, v2 := int(symI32("v1")), int(symI32("v2"))
	var r1, r2 int
	var l1, l2 bool
	var wg gosync.WaitGroup
	wg.Add(2)
	go func() { r1, l1 = m.LoadOrStore(7, v1); wg.Done() }()
	go func() { r2, l2 = m.LoadOrStore(7, v2); wg.Done() }()
	wg.Wait()
	symCover("joined")
	symAssert(l1 != l2, "exactly one of two concurrent store-if-absent calls reports having stored")
	symAssert(r1 == r2, "both calls return the value that is in the map")
	got, ok := m.Load(7)
	symAssert(ok && got == r1, "and that value is the stored one")
}

func zzC14_selftest() {
	m := NewMap[uint64, int]()
	var wg gosync.WaitGroup
	wg.Add(2)
	x := 0
	go func() { m.Store(1, 1); x = 1; wg.Done() }()
	go func() { m.Store(1, 2); x = 2; wg.Done() }()
	wg.Wait()
	symAssert(x == 2, "selftest: must fail (the other order is possible)")
}
