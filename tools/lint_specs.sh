#!/bin/sh
# every check spec must load with all of its harness files compiling against /repo's current tree
cd /verif || exit 2
bad=0
for f in checks/C*.json; do
  id=$(basename "$f" .json)
  n=$(timeout 600 ./check "$id" quick -only zzNOPE 2>&1 | grep -c 'does not compile\|load error')
  [ "$n" != 0 ] && { echo "$id: $n stale harness file(s)"; bad=1; }
done
[ $bad = 0 ] && echo "all specs load cleanly"
exit $bad
