#!/bin/sh
# usage: tools/calibrate.sh <tier> <cap seconds> [check ids...] ; runs every harness function of every check on its own and
# records wall time and exit status (for choosing thorough bounds that finish)
tier="$1"; cap="$2"; shift; shift
here=$(cd "$(dirname "$0")/.." && pwd); cd "$here"
ids="$@"; [ -n "$ids" ] || ids=$(ls checks | sed 's/.json//')
for c in $ids; do
  for f in $(python3 -c "
import json
c=json.load(open('checks/$c.json'))
for h in c['harnesses']:
    for f in h['funcs']:
        if f.get('expect')!='selftest-fail': print(f['name'])
"); do
    s=$(date +%s)
    timeout "$cap" ./check "$c" "$tier" -only "$f" -evidence "/tmp/calib-$c-$f.json" > "calib-$c-$f.log" 2>&1; rc=$?
    echo "$c $f exit=$rc secs=$(( $(date +%s)-s )) $(grep -o 'paths=[0-9]*' calib-$c-$f.log | tail -1)" >> calib-summary.txt
  done
done
echo DONE >> calib-summary.txt
