#!/bin/sh
# usage: tools/verify_seed.sh <seed dir> ; verifies a seeded change in a scratch worktree: builds, existing tests pass, demo fails with / passes without
d="$1"; name=$(basename "$d"); wt=/tmp/vs-$name
export GOFLAGS=-mod=mod GOPROXY=off
git -C /repo worktree add -q --detach "$wt" HEAD || exit 9
cd "$wt" || exit 9
res="$d/verify.txt"; : > "$res"
pkg=$(python3 -c "import json;print(json.load(open('$d/meta.json'))['demo_pkg'])")
cp "$d/demo_test.go" "$wt/$pkg/zz_demo_test.go"
if go test -vet=off -count=1 -run 'Demo|ZZ' "./$pkg/" >/tmp/vs-$name-orig.log 2>&1; then echo "demo passes on original: yes" >> "$res"; else echo "demo passes on original: NO" >> "$res"; tail -5 /tmp/vs-$name-orig.log >> "$res"; fi
git apply "$d/patch.diff" || { echo "patch does not apply" >> "$res"; }
if go build ./... >/dev/null 2>&1; then echo "builds: yes" >> "$res"; else echo "builds: NO" >> "$res"; fi
if go test -vet=off -count=1 -run 'Demo|ZZ' "./$pkg/" >/tmp/vs-$name-mut.log 2>&1; then echo "demo fails with change: NO" >> "$res"; else echo "demo fails with change: yes" >> "$res"; fi
rm -f "$wt/$pkg/zz_demo_test.go"
go test -vet=off -count=1 -timeout 25m ./... > /tmp/vs-$name-suite.log 2>&1
fails=$(grep -E "^(--- FAIL|FAIL)" /tmp/vs-$name-suite.log | grep -v "TestUDPConnWriteToAddr\|TestUDPConnWriteWithContext" | grep -v "^FAIL$" | grep -v "^FAIL.github.com/plgd-dev/go-coap/v3/net.[0-9]" | head -5)
if [ -z "$fails" ]; then echo "existing suite passes with change: yes" >> "$res"; else echo "existing suite passes with change: NO" >> "$res"; echo "$fails" >> "$res"; fi
cd /; git -C /repo worktree remove --force "$wt"
cat "$res"
