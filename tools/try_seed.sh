#!/bin/sh
# usage: tools/try_seed.sh <seed dir containing patch.diff> <property> [tier] [extra flags]
# applies the seeded change to /repo, runs the check, restores /repo
d="$1"; p="$2"; t="${3:-quick}"; shift; shift; [ $# -gt 0 ] && shift
cd /repo && git apply "$d/patch.diff" || { echo "patch does not apply"; exit 9; }
trap 'cd /repo && git checkout -- .; exit 143' TERM INT HUP
cd /verif && timeout 1800 ./check "$p" "$t" "$@" > /tmp/seed-$p.log 2>&1; rc=$?
cd /repo && git checkout -- . && git status --short | grep -v '^??' | head -3
echo "check exit=$rc"; grep -E "^(VIOLATION|KNOWN|UNCONFIRMED|INCONCLUSIVE|ENCODER|COVER|summary)" /tmp/seed-$p.log | cut -c1-260 | head -8
