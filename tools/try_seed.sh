#!/bin/sh
# usage: tools/try_seed.sh <seed dir containing patch.diff> <property> [tier] [extra flags]
# applies the seeded change to a scratch worktree of /repo's HEAD (so /repo itself and checks running on it are
# not disturbed), runs the check against it (GOSYM_REPO), removes the worktree
d="$1"; p="$2"; t="${3:-quick}"; shift; shift; [ $# -gt 0 ] && shift
R=/tmp/seedrepo-$$
git -C /repo worktree add -q --detach "$R" HEAD || exit 9
trap 'git -C /repo worktree remove --force "$R" 2>/dev/null; exit 143' TERM INT HUP
(cd "$R" && git apply "$d/patch.diff") || { echo "patch does not apply"; git -C /repo worktree remove --force "$R"; exit 9; }
log=/tmp/seed-$p-$$.log
mkdir -p /tmp/seed-evidence
cd /verif && GOSYM_REPO="$R" timeout 1800 ./check "$p" "$t" -evidence "/tmp/seed-evidence/$p-$$.json" "$@" > "$log" 2>&1; rc=$?
git -C /repo worktree remove --force "$R"
echo "check exit=$rc"; grep -E "^(VIOLATION|KNOWN|UNCONFIRMED|INCONCLUSIVE|ENCODER|COVER|HARNESS|summary)" "$log" | cut -c1-260 | head -8
cp "$log" /tmp/seed-$p.log
