#!/usr/bin/env python3
# Generates /verif/MANIFEST.json from the table below (kept here so that the manifest always validates).
import json, os
ROOT = os.path.dirname(os.path.dirname(os.path.abspath(__file__)))
TECH = "bounded symbolic execution of go/ssa + SMT (z3; cvc5 cross-check in thorough), native replay of counterexamples"
TECHS = {"C17": "symbolic interpreter over go/ssa with decision enumeration (regexp evaluated by host on concrete strings; SMT only for braceIndices), native replay",
 "C14": "context-bounded symbolic execution of go/ssa (interleavings as solver-visible decisions) + SMT, schedule-forced native replay",
 "C16": "context-bounded symbolic execution of go/ssa (interleavings as decisions) + SMT, schedule-forced native replay",
 "C11": "context-bounded symbolic execution of go/ssa (interleavings as decisions) + SMT, schedule-forced native replay",
 "C03": "context-bounded symbolic execution of go/ssa (interleavings as decisions) + SMT, schedule-forced native replay",
 "C12": "bounded symbolic execution of go/ssa with ghost ownership state + SMT, instrumented native replay",
 "C09": "context-bounded symbolic execution of go/ssa (interleavings as decisions, stall = no runnable thread) + SMT, schedule-forced native replay",
 "C10": "context-bounded symbolic execution of go/ssa (interleavings as decisions, stall = no runnable thread) + SMT, schedule-forced native replay"}
claimed = {
 "C09": dict(level="Partial claim. Context-bounded symbolic model checking of the real udp/client.Conn (in-memory session) and the real tcp/client.Conn with Session.Run (in-memory blocking socket): for every blocking client operation, every listed stage of it and every ending event (context cancelled, connection closed locally once or twice concurrently, peer closes, peer sends a non-frame) the operation returns without needing any further event; on the stream session Close is idempotent, Done() is completed when the loop ends and every on-close callback runs exactly once. A state in which the call can never proceed is a deadlock counterexample, replayed natively under the recorded schedule (the native run must hang).",
             note="Not decided: wall-clock bounds, deadline expiry, DTLS/TLS and real sockets, server Stop, discovery. Trusted: gosym encoder/scheduler model (concurrent witnesses replayed natively), in-memory session/socket stubs listed in evidence.", ref="DESIGN.md §4 C09"),
 "C17": dict(level="Partial claim. The router's dispatch logic (Match/ServeCOAP/Handle/HandleRemove/DefaultHandle/Use, newRouteRegexp, extractVars) is executed by the symbolic interpreter for every decided route set, request path and map iteration order within the listed sets against an independent segment matcher; braceIndices is decided over all symbolic strings up to the bound. The regular-expression engine is not encoded: it is evaluated by the host on concrete strings, so route patterns and paths are enumerated, not symbolic.",
             note="Not decided: that compiled regexps denote exactly the pattern language in general (QuoteMeta, anchoring, arbitrary {var:re}); data races under concurrent registration/dispatch. Trusted: gosym encoder (native witnesses), host regexp.", ref="DESIGN.md §4 C17"),
 "C12": dict(level="Bounded symbolic model checking with engine ghost state per pooled message (released from the return of ReleaseMessage until AcquireMessage hands it out again): double release, any method call on a released message from outside the pool, and a held response/request/hijacked request found released or changed are violations; explored on the real UDP connection for held responses, handler-held and hijacked requests, the retransmission-vs-acknowledgement race and the release-on-return race (2 threads), block-wise responder and requester roles including the early-release error paths, the response writer, and a held response on the TCP connection.",
             note="Trusted: gosym encoder/scheduler; the same ghost rules are instrumented into the native build for replay. LIFO model of sync.Pool. Observation callbacks and application goroutines outside.", ref="DESIGN.md §4 C12"),
 "C03": dict(level="Context-bounded symbolic model checking of the real udp/client.Conn (Do/doInternal, writeMessage, Process, handleSpecialMessages, reader loop, handleReq/handle, token and message-ID tables, limiter, coder, pool) over an in-memory session with two concurrent callers and a peer that answers in every decided order/style/multiplicity with symbolic content: each successful call returns its own token and the content produced for it, no response object reaches two callers, a second request with an outstanding token is rejected without displacing the first; the same on the real tcp/client.Conn over an in-memory net.Conn, and on the UDP connection with a recycling pool after a release-on-return race.",
             note="Trusted: gosym encoder and scheduler model (concurrent witnesses replayed natively under the recorded schedule and select choices), z3. Claimed for the datagram and stream connections with block-wise off; DTLS/TLS sessions outside.", ref="DESIGN.md §4 C03"),
 "C04": dict(level="Bounded symbolic model checking of the real block-wise layer on both ends of a relay (Do, Handle, processReceivedMessage, continue/start/createSendingMessage, both caches, memfile): for every body length around block boundaries with symbolic bytes, SZX pair and decided fault (duplicate, drop, forged block of another representation), a completed exchange delivers exactly the supplied bytes exactly once with the other options preserved, and an exchange that cannot complete never presents a partial body.",
             note="Trusted: gosym encoder (native witnesses), z3/cvc5. Sequential two-party relay; BERT, >2 blocks, concurrency of transfers outside.", ref="DESIGN.md §4 C04"),
 "C13": dict(level="Bounded symbolic model checking of decided exchange histories on the real udp/client.Conn (in-package inspection of the unexported tables) and of completed/abandoned block-wise transfers, each followed by a housekeeping tick beyond every deadline: nothing per-exchange is retained; exchange kinds include observe registration rejected / accepted-then-cancelled; the same for histories on the real tcp/client.Conn.",
             note="Trusted: gosym encoder/scheduler (native witnesses), z3. History length 2-3; limiter queues covered by C16; server tables outside.", ref="DESIGN.md §4 C13"),
 "C05": dict(level="Bounded symbolic model checking of the real udp/client.Conn receive path (handleReq, per-ID lock, reply cache with the real expiring cache, processResponse, pooled messages, coder) over an in-memory session: a duplicate within the symbolic exchange lifetime never re-runs the handler and is answered with the same reply matched to its message ID; after the lifetime the ID is fresh; IDs colliding with the endpoint's own outgoing IDs are inside the domain.",
             note="Trusted: gosym encoder (native witnesses with injected clock and schedule), z3/cvc5. Concurrent copies, separate responses and DTLS outside.", ref="DESIGN.md §4 C05"),
 "C06": dict(level="Bounded symbolic model checking of the real retransmission machinery (prepareWriteMessage, midElement, CheckExpirations, handleSpecialMessages, NSTART semaphore) with time as a symbolic variable: number of copies, earliest instant of the k-th copy, byte-identity of copies, silence after ACK/RST/return, clean exhaustion; and a 2-thread harness deciding that the retransmission clock of a request queued behind NSTART starts at its first transmission.",
             note="Trusted: gosym encoder and scheduler model (native witnesses with injected clock and forced schedule), z3/cvc5. Event-count and preemption bounds in evidence.", ref="DESIGN.md §4 C06"),
 "C07": dict(level="Bounded symbolic model checking of the real Session.processBuffer (with bytes.Buffer, pooled messages and the stream coder interpreted from source) in the inductive two-segment form: for every byte stream within the bound, every cut and every maximum message size, the deliveries, the buffered remainder and the error outcome of processing S[:c] then S[c:] equal those of processing S at once, and both equal a reference framer written from RFC 8323 §3.2 (oversize frames: error as soon as the header is complete, nothing of or after them delivered).",
             note="Trusted: gosym encoder (native witnesses), z3/cvc5, the harness reference framer. Stream length bound in evidence; Run's read loop covered by the induction argument only.", ref="DESIGN.md §4 C07"),
 "C11": dict(level="Context-bounded symbolic model checking of the real ReceivedMessageReader (loop, TryToReplaceLoop) with harness handlers that block on nested requests exactly as Conn.doInternal does: exactly-once processing, arrival order while handlers do not block, no stall (any state in which the pusher or a nested wait can never proceed is reported as deadlock) for every queue size and interleaving within the bounds; and of the real udp/client.Conn fed through Conn.Process with request handlers and observation callbacks that block on nested confirmable requests while later stimuli and the answers arrive in every decided order; counterexample schedules and select choices are forced on the native build.",
             note="Trusted: gosym encoder/scheduler model (concurrent witnesses replayed natively), z3. Reader component and UDP connection; TCP/DTLS/TLS sessions outside.", ref="DESIGN.md §4 C11"),
 "C16": dict(level="Context-bounded symbolic model checking of the real limiter (with the real x/sync semaphore, container/list and context interpreted from source): 3-4 request goroutines, limits from {1,2}^2, a controller thread deciding every order of finish/cancel events; asserts the total and per-endpoint limits at every admission, arrival-order admission per path, cancelled waiters returning their context error without disturbing slots, and an idle limiter (empty queues, full semaphore, immediate admission) at the end. Counterexample schedules are forced on the native build.",
             note="Trusted: gosym encoder and scheduler model (concurrent witnesses replayed natively under the recorded schedule), z3. Preemption bound 1; >5 requests outside.", ref="DESIGN.md §4 C16"),
 "C14": dict(level="Context-bounded symbolic model checking of pkg/sync.Map and pkg/cache.Cache: goroutines are interpreter threads, every interleaving at synchronisation-operation granularity within the preemption bound is explored as solver-visible decisions; histories are checked for linearizability against a sequential map specification written in the harness, plus the three clauses singled out by the property (store-if-absent has one winner on absent/expired keys, callbacks see the value in the map, the sweep never removes an unexpired entry). Counterexample schedules are forced on the native build.",
             note="Trusted: gosym encoder and scheduler model (concurrent witnesses are replayed natively under the recorded schedule on every run), z3/cvc5. Data races and >2 threads outside.", ref="DESIGN.md §4 C14"),
 "C15": dict(level="One-step inductive bounded symbolic model checking of the option list (Add/Set/Remove/Find and all getters from an arbitrary sorted list, against a reference sorted-multiset model), of the pooled-message builder around the 256-byte inline value buffer (values byte-exact after growth, Clone, Reset/reuse), and of SetPath/Path normalisation on every short path string plus the 255/256-byte segment limit.",
             note="Trusted: gosym encoder (native witnesses), z3/cvc5, harness reference model. List size, value length and path length bounds in evidence.", ref="DESIGN.md §4 C15"),
 "C08": dict(level="ValidSequenceNumber decided against the RFC 7641 §3.4 formula on its full domain (all uint32 pairs, all instants); the observation's accept/reject step decided from an arbitrary state (inductive step: state is exactly last accepted sequence + time); registration code, routing by token, cancellation and failed registration decided on a two-observation harness with all 2^16 answer codes.",
             note="Trusted: gosym encoder (native witnesses with injected clock), z3/cvc5, time.Time modelled as int64 ns. Concurrent Handle/Cancel and end-to-end Conn wiring outside.", ref="DESIGN.md §4 C08"),
 "C18": dict(level="Bounded symbolic model checking of inactivity.Monitor and KeepAlive wired as the library wires them: every history of up to 4/5 (quick) or 7 (thorough) events {message, tick, pong for any earlier ping} with symbolic non-decreasing times, symbolic period and retry limit, against an event-counting oracle written from the statement.",
             note="Trusted: gosym encoder, z3/cvc5, int64-ns time model. Known finding C18-message-does-not-reset-count reported as KNOWN-FINDING. Connection/server tick wiring outside.", ref="DESIGN.md §4 C18"),
 "C02": dict(level="Differential bounded symbolic model checking: the real datagram/stream decoders (and the pooled-message path incl. recycled capacities) run on every byte string up to the stated lengths together with an RFC reference parser written in the harness; the solver refutes any disagreement in accept/reject or in any decoded field, any panic, any non-termination within the step bound, any failure to re-encode/re-decode, and aliasing of the receive buffer.",
             note="Trusted: gosym encoder (native path witnesses on every run), z3/cvc5, the harness reference parser. Lengths beyond the bound are outside.", ref="DESIGN.md §4 C02"),
 "C01": dict(level="Bounded symbolic model checking of the real udp/tcp coders: header lemmas on their full domain (every delta/length/extension class, every uint32, every stream length class), whole-message encode->decode round trip, Size/Encode agreement and short-buffer behaviour with symbolic option numbers, values, token, payload, code, type, MID; refusal of out-of-domain token/type/MID. Bounds on option count and byte lengths are stated in evidence.",
             note="Trusted: gosym encoder (validated on every run by native path witnesses), z3/cvc5, the harness copy of the option registry. Known finding C01-type-4-255 (types 4..255 accepted; pinned by an existing test) is reported as KNOWN-FINDING.", ref="DESIGN.md §4 C01"),
 "C20": dict(level="IsNoResponseCode over all 2^16 codes x all 2^32 option values and the ResponseWriter.SetResponse gate over every 0..4-byte option value and all codes 0..255, against the RFC 7967 class/bit table; solver refutes any deviation.",
             note="Trusted: gosym encoder, z3/cvc5. Connection-level wiring is covered in C05's harness, not here.", ref="DESIGN.md §4 C20"),
 "C19": dict(level="Every input of EncodeBlockOption / DecodeBlockOption / SZX.Size / bufferSize ranges over its full machine type as a bit-vector; the RFC 7959 §2.2 layout is the oracle; the solver refutes every deviation. No bound inside 64-bit types.",
             note="Trusted: gosym encoder (cross-validated natively on every run by path witnesses), z3/cvc5. 32-bit builds outside.", ref="DESIGN.md §4 C19"),
}
not_applicable = {
 "C10": "whole-server behaviour over net.Listen*/accept loops/DTLS handshakes with many goroutines: whole-program and I/O bound, outside any encodable bound (DESIGN.md §6)",
}
pending = {}
props = [json.loads(l)["id"] for l in open(os.path.join(ROOT, "properties.jsonl"))]
checks = []
for pid in props:
    if pid in claimed and os.path.exists(os.path.join(ROOT, "checks", pid + ".json")):
        c = claimed[pid]
        checks.append({
            "property_id": pid,
            "quick_cmd": "./check %s quick" % pid,
            "thorough_cmd": "./check %s thorough" % pid,
            "evidence_file": "/verif/evidence/%s.json" % pid,
            "replay_cmd_template": "sh {path}/replay.sh",
            "engine": "gosym",
            "level_claimed": {"category": "model_checking", "text": c["level"], "design_ref": c["ref"]},
            "level_note": c["note"],
            "technique": TECHS.get(pid, TECH),
        })
na = []
for pid in props:
    if pid in [c["property_id"] for c in checks]:
        continue
    reason = not_applicable.get(pid) or pending.get(pid) or "harness not yet brought to a clean run with the solver-based engine; not claimed (see DESIGN.md)"
    na.append({"property_id": pid, "reason": reason})
m = {
 "version": 1,
 "setup_cmd": "cd /verif/engine && GOFLAGS=-mod=mod GOPROXY=off go build -o ../bin/gosym . && ../bin/gosym version",
 "hooks": {"guard": "verif", "enable": "no hooks: harnesses are injected in-package through go/packages and `go test -overlay` overlays; nothing under /repo is written", "baseline_off_cmd": "cd /repo && GOFLAGS=-mod=mod GOPROXY=off go test -vet=off -count=1 -timeout 25m ./...", "source_commits": [], "add_only": True},
 "engines": [{"name": "gosym", "path": "/verif/engine", "serves_properties": [c["property_id"] for c in checks], "kind_free_text": "symbolic interpreter for go/ssa (forking, re-execution DFS) with SMT-LIB2 back end (z3 -in, cvc5 --incremental), native replay and path-witness cross-validation through go test -overlay"}],
 "checks": checks,
 "not_applicable": na,
 "notes": "All checks share ./check <id> <tier>; exit 3 = inconclusive (unsupported construct, solver unknown, unconfirmed counterexample, unreachable cover label) and never occurs on the unchanged tree. Genuine defects found by the checks are recorded in known_findings.json (fixed entries name the fix: commit in /repo).",
}
json.dump(m, open(os.path.join(ROOT, "MANIFEST.json"), "w"), indent=1)
print("checks:", [c["property_id"] for c in checks], "n/a:", [x["property_id"] for x in na])
