#!/usr/bin/env python3
# usage: tools/keep_seed.py <name> <property> "<caught by>" ; moves seeded/staging/<name> to seeded/<name> with a completed meta.json
import json, os, shutil, sys
name, prop, caught = sys.argv[1], sys.argv[2], sys.argv[3]
src = f"/verif/seeded/staging/{name}"
dst = f"/verif/seeded/{name}"
os.makedirs(dst, exist_ok=True)
meta = json.load(open(f"{src}/meta.json"))
ver = open(f"{src}/verify.txt").read() if os.path.exists(f"{src}/verify.txt") else ""
out = {
    "property": prop,
    "breaks": meta.get("summary"),
    "needs_to_manifest": meta.get("needs"),
    "files": meta.get("files"),
    "demo_pkg": meta.get("demo_pkg"),
    "demo_cmd": meta.get("demo_cmd"),
    "author_verification": meta.get("verified"),
    "confirmed_by_me": {"how": "tools/verify_seed.sh in a scratch worktree of /repo HEAD: demo passes on original, patch applies and builds, demo fails with the change, full existing suite passes with the change (the two sandbox-failing net tests excluded)", "result": ver.strip().splitlines()},
    "caught_by": caught,
    "check_run": f"git -C /repo apply seeded/{name}/patch.diff && ./check {prop} quick ; git -C /repo checkout -- .   (tools/try_seed.sh)",
}
if os.path.exists(f"{src}/patch.orig.diff"):
    out["note"] = "patch.diff is the author's change rebased onto the tree after the fix: commit for this property (patch.orig.diff is the author's original against the earlier tree)"
    shutil.copy(f"{src}/patch.orig.diff", f"{dst}/patch.orig.diff")
shutil.copy(f"{src}/patch.diff", f"{dst}/patch.diff")
shutil.copy(f"{src}/demo_test.go", f"{dst}/demo_test.go")
json.dump(out, open(f"{dst}/meta.json", "w"), indent=1)
shutil.rmtree(src)
print("kept", name)
