#!/usr/bin/env python3
# prints the harness inventory (markdown) from checks/*.json; pasted into DESIGN.md section 0.6
import json,glob,os
for f in sorted(glob.glob(os.path.join(os.path.dirname(__file__),'..','checks','C*.json'))):
    d=json.load(open(f))
    fs=[]
    for h in d['harnesses']:
        for fn in h['funcs']:
            if fn.get('expect')=='selftest-fail':
                continue
            q=fn.get('params',{}).get('quick'); t=fn.get('params',{}).get('thorough')
            pq=fn.get('preempt',{}).get('quick'); pt=fn.get('preempt',{}).get('thorough')
            s='`%s` (%s)'%(fn['name'],h['pkg'])
            extra=[]
            if q or t: extra.append('params q=%s t=%s'%(json.dumps(q,separators=(',',':')),json.dumps(t,separators=(',',':'))))
            if pq is not None: extra.append('preempt q=%s t=%s'%(pq,pt))
            if extra: s+=' - '+'; '.join(extra)
            fs.append(s)
    print('* **%s**: '%d['property']+'; '.join(fs))
