import json,collections,sys
ev=json.load(open('/verif/evidence/%s.json'%sys.argv[1]))
c=collections.Counter()
for p in ev['coverage']['problems']:
    i=p.find('label=')
    j=p.find('inputs=')
    c[p[:40]+' '+p[i:j][:160]]+=1
for k,v in c.most_common(): print(v,k)
