package main

import (
	"fmt"
	"go/types"
	"os"
	"sort"
	"strings"
	"sync"
	"time"

	"golang.org/x/tools/go/ssa"
)

// PathResult is the term-free record of one explored path.
type PathResult struct {
	Harness   string            `json:"harness"`
	Decisions []int             `json:"decisions"`
	Kinds     []string          `json:"-"`
	Outcome   string            `json:"outcome"` // ok | panic | deadlock | steplimit | unwind | unsupported | infeasible | enumlimit
	Msg       string            `json:"msg,omitempty"`
	Asserts   []AssertOut       `json:"asserts,omitempty"`
	Observed  []ObsOut          `json:"observed,omitempty"`
	Model     map[string]uint64 `json:"model,omitempty"`
	Covers    []string          `json:"covers,omitempty"`
	Notes     []string          `json:"notes,omitempty"`
	Steps     int               `json:"steps"`
	NDec      int               `json:"ndec"`
	Symbolic  bool              `json:"symbolic"`
	Threads   int               `json:"threads,omitempty"`
	Sched     []int             `json:"sched,omitempty"`
	Selects   []int             `json:"selects,omitempty"`
	Chooses   []int             `json:"chooses,omitempty"`
}

type AssertOut struct {
	Label   string            `json:"label"`
	Failed  bool              `json:"failed,omitempty"`
	Unknown bool              `json:"unknown,omitempty"`
	Known   string            `json:"known,omitempty"`
	Model   map[string]uint64 `json:"model,omitempty"`
}

type ObsOut struct {
	Name string `json:"name"`
	Val  string `json:"val"`
}

type workItem struct {
	prefix []int
	locked int
}

type HarnessStats struct {
	Name        string
	Paths       int
	Feasible    int
	Outcomes    map[string]int
	Obligations int
	Discharged  int
	CrossChecks int
	Violations  []PathResult
	Known       []PathResult
	Inconcl     []PathResult
	Samples     []PathResult
	Witnesses   []PathResult // feasible completed paths with models, for cross validation
	Covers      map[string]int
	Instr       int64
	Funcs       map[string]int
	Stubs       map[string]int
	Notes       map[string]int
	SolverQ     int
	SolverT     time.Duration
	SolverUnk   int
	SolverErr   int
	Wall        time.Duration
	MaxDec      int
	Truncated   bool
	SymPaths    int
}

type Engine struct {
	prog     *ssa.Program
	coapPkgs map[*ssa.Package]bool
	cfg      Config
	params   map[string]int
	knownIDs map[string]bool
	workers  int
	mathC    map[string]uint64
	seed     int64
}

func (e *Engine) newInterp() (*Interp, error) {
	tb := NewTB()
	in := &Interp{prog: e.prog, tb: tb, cfg: e.cfg, fset: e.prog.Fset, coapPkgs: e.coapPkgs,
		satCache: map[*Term]SatResult{}, enumCache: map[[2]int][]uint64{}, funcsSeen: map[*ssa.Function]int{},
		stubsUsed: map[string]int{}, pureCache: map[string]Value{}, qsites: map[string]int{}, unsatUnder: map[*Term][]*Term{}, params: e.params, knownIDs: e.knownIDs, mathConst: e.mathC}
	sol, err := NewSolver(e.cfg.Solver, tb, e.cfg.TimeoutMs)
	if err != nil {
		return nil, err
	}
	in.sol = sol
	if len(e.cfg.Race) > 0 {
		in.raceEnable(e.cfg.Race)
	}
	if e.cfg.Solver2 != "" {
		s2, err := NewSolver(e.cfg.Solver2, tb, e.cfg.TimeoutMs)
		if err != nil {
			return nil, err
		}
		in.sol2 = s2
	}
	in.initStubs()
	in.initStubs2()
	return in, nil
}

// runPath executes the harness once along the given decision prefix.
func (in *Interp) runPath(fn *ssa.Function, prefix []int) (res PathResult) {
	in.resetPath(prefix)
	res.Harness = fn.Name()
	defer func() {
		if r := recover(); r != nil {
			ab, ok := r.(abort)
			if !ok {
				// internal engine error: report as unsupported with the message
				res.Outcome = "unsupported"
				res.Msg = fmt.Sprintf("engine error: %v", r)
				if in.cfg.Debug {
					panic(r)
				}
			} else {
				res.Outcome = ab.kind.String()
				res.Msg = ab.msg
			}
		}
		in.finishResult(&res)
	}()
	main := in.newThread("main")
	in.cur = main
	in.pushFrame(main, fn, nil, nil, nil)
	in.runMain()
	res.Outcome = "ok"
	return
}

func (in *Interp) finishResult(res *PathResult) {
	for _, d := range in.dec {
		res.Decisions = append(res.Decisions, d.Taken)
		res.Kinds = append(res.Kinds, d.Kind)
	}
	res.NDec = len(in.dec)
	res.Chooses = append([]int(nil), in.chooses...)
	if len(in.threads) > 1 {
		res.Sched = append([]int(nil), in.schedTrace...)
		res.Selects = append([]int(nil), in.selTrace...)
	}
	res.Steps = in.nsteps
	res.Notes = append(res.Notes, in.pathNotes...)
	res.Symbolic = len(in.pcList) > 0
	res.Threads = len(in.threads)
	for c := range in.covers {
		res.Covers = append(res.Covers, c)
	}
	sort.Strings(res.Covers)
	if res.Outcome == "infeasible" {
		return
	}
	// a model of the final path condition, used for witnesses and for rendering observations
	var m Model
	func() {
		defer func() {
			if r := recover(); r != nil {
				m = nil
			}
		}()
		mm, r := in.modelFor(in.tb.T)
		if r == Sat {
			m = in.completeModel(mm)
		}
	}()
	res.Model = m
	if res.Outcome == "deadlock" {
		// a stall inside the region of a listed known finding is reported as that finding, not as a violation
		for _, k := range in.known {
			if k.cond.op == OpTrue {
				res.Asserts = append(res.Asserts, AssertOut{Label: "deadlock", Known: k.id, Model: m})
				res.Outcome = "deadlock-known"
				break
			}
		}
	}
	for _, a := range in.asserts {
		res.Asserts = append(res.Asserts, AssertOut{Label: a.Label, Failed: a.Failed, Unknown: a.Unknown, Known: a.Known, Model: a.Model})
	}
	if m != nil {
		memo := map[int]uint64{}
		for _, o := range in.observes {
			res.Observed = append(res.Observed, ObsOut{o.Name, in.render(o.Val, m, memo)})
		}
	}
}

// render prints a value under a model in the canonical form shared with the native sym* runtime.
func (in *Interp) render(v Value, m Model, memo map[int]uint64) string {
	switch x := v.(type) {
	case nil:
		return "nil"
	case IfaceV:
		if x.t == nil {
			return "nil"
		}
		if w, signed, ok := typeWidth(x.t); ok {
			t := x.v.(*Term)
			val, _ := in.tb.Eval(t, m, memo)
			if w == 0 {
				if val == 1 {
					return "true"
				}
				return "false"
			}
			if signed {
				return fmt.Sprintf("%d", sx(val, w))
			}
			return fmt.Sprintf("%d", val)
		}
		switch u := x.t.Underlying().(type) {
		case *types.Basic:
			if u.Info()&types.IsString != 0 {
				return in.renderBytes(x.v.(StrV).b, m, memo)
			}
		case *types.Slice:
			sl := x.v.(SliceV)
			if w, _, ok := typeWidth(u.Elem()); ok && w == 8 {
				if sl.arr == nil {
					return "x"
				}
				return in.renderBytes(in.sliceBytes(sl), m, memo)
			}
		case *types.Pointer, *types.Interface:
		}
		if in.implements(x.t, errorIface) {
			return "error"
		}
		return "<" + x.t.String() + ">"
	case *Term:
		val, _ := in.tb.Eval(x, m, memo)
		return fmt.Sprintf("%d", val)
	}
	return fmt.Sprintf("<%T>", v)
}

var errorIface = types.Universe.Lookup("error").Type().Underlying().(*types.Interface)

func (in *Interp) renderBytes(b []*Term, m Model, memo map[int]uint64) string {
	var sb strings.Builder
	sb.WriteString("x")
	for _, t := range b {
		v, _ := in.tb.Eval(t, m, memo)
		fmt.Fprintf(&sb, "%02x", v)
	}
	return sb.String()
}

// Explore runs the harness over all decision prefixes with a pool of workers.
func (e *Engine) Explore(fn *ssa.Function) (*HarnessStats, error) {
	st := &HarnessStats{Name: fn.Name(), Outcomes: map[string]int{}, Covers: map[string]int{}, Funcs: map[string]int{}, Stubs: map[string]int{}, Notes: map[string]int{}}
	start := time.Now()
	var mu sync.Mutex
	cond := sync.NewCond(&mu)
	exploreStart := time.Now()
	queue := []workItem{{nil, 0}}
	active := 0
	stop := false
	var firstErr error

	worker := func() {
		in, err := e.newInterp()
		if err != nil {
			mu.Lock()
			firstErr = err
			stop = true
			cond.Broadcast()
			mu.Unlock()
			return
		}
		defer func() {
			mu.Lock()
			st.Instr += in.totalInst
			for f, n := range in.funcsSeen {
				st.Funcs[f.String()] += n
			}
			for s, n := range in.stubsUsed {
				st.Stubs[s] += n
			}
			for k, v := range in.qsites {
				st.Notes["site:Q "+k] += v
			}
			st.SolverQ += in.sol.Queries
			st.SolverT += in.sol.Time
			st.SolverUnk += in.sol.Unknowns
			st.SolverErr += in.sol.Errors
			if in.sol2 != nil {
				st.SolverQ += in.sol2.Queries
				st.SolverT += in.sol2.Time
				st.SolverUnk += in.sol2.Unknowns
				st.SolverErr += in.sol2.Errors
			}
			mu.Unlock()
			in.sol.Close()
			in.sol2.Close()
		}()
		for {
			mu.Lock()
			for len(queue) == 0 && active > 0 && !stop {
				cond.Wait()
			}
			if stop || (len(queue) == 0 && active == 0) {
				cond.Broadcast()
				mu.Unlock()
				return
			}
			// depth-first: take the most recent item
			it := queue[len(queue)-1]
			queue = queue[:len(queue)-1]
			active++
			mu.Unlock()

			in.nObl, in.nDischarged, in.nCross = 0, 0, 0
			res := in.runPath(fn, it.prefix)

			mu.Lock()
			active--
			// enqueue the unexplored siblings below the locked prefix
			for i := len(in.dec) - 1; i >= it.locked; i-- {
				d := in.dec[i]
				for alt := d.Taken + 1; alt < d.N; alt++ {
					p := make([]int, i+1)
					for j := 0; j < i; j++ {
						p[j] = in.dec[j].Taken
					}
					p[i] = alt
					queue = append(queue, workItem{p, i + 1})
				}
			}
			e.record(st, &res, in)
			if e.cfg.MaxPaths > 0 && st.Paths >= e.cfg.MaxPaths {
				st.Truncated = len(queue) > 0 || active > 0
				stop = true
			}
			if len(st.Violations) >= 10 && time.Since(exploreStart) > 4*time.Minute {
				// the property is already refuted many times over and the exploration is slow (a change that makes
				// paths run into the step limit, for instance): report what was found instead of running for hours
				st.Truncated = len(queue) > 0 || active > 0
				stop = true
			}
			cond.Broadcast()
			mu.Unlock()
		}
	}
	progDone := make(chan struct{})
	go func() {
		tk := time.NewTicker(10 * time.Second)
		defer tk.Stop()
		for {
			select {
			case <-progDone:
				return
			case <-tk.C:
				mu.Lock()
				fmt.Fprintf(os.Stderr, "  .. %s paths=%d queue=%d active=%d outcomes=%v t=%.0fs\n", fn.Name(), st.Paths, len(queue), active, fmtOutcomes(st.Outcomes), time.Since(start).Seconds())
				mu.Unlock()
			}
		}
	}()
	defer close(progDone)
	var wg sync.WaitGroup
	for i := 0; i < e.workers; i++ {
		wg.Add(1)
		go func() { defer wg.Done(); worker() }()
	}
	wg.Wait()
	st.Wall = time.Since(start)
	return st, firstErr
}

func (e *Engine) record(st *HarnessStats, res *PathResult, in *Interp) {
	st.Paths++
	st.Outcomes[res.Outcome]++
	st.Obligations += in.nObl
	st.Discharged += in.nDischarged
	st.CrossChecks += in.nCross
	if res.NDec > st.MaxDec {
		st.MaxDec = res.NDec
	}
	for _, n := range res.Notes {
		st.Notes[n]++
	}
	if e.cfg.Sites {
		for _, k := range res.Kinds {
			st.Notes["site:"+k]++
		}
	}
	if res.Outcome == "infeasible" {
		return
	}
	st.Feasible++
	if res.Symbolic {
		st.SymPaths++
	}
	for _, c := range res.Covers {
		st.Covers[c]++
	}
	bad, known, inconcl := false, false, false
	for _, a := range res.Asserts {
		if a.Failed {
			bad = true
		}
		if a.Known != "" {
			known = true
		}
		if a.Unknown {
			inconcl = true
		}
	}
	switch res.Outcome {
	case "panic", "deadlock", "steplimit":
		bad = true
	case "unwind", "unsupported", "enumlimit":
		inconcl = true
	}
	for _, n := range res.Notes {
		if strings.HasPrefix(n, "solver-") {
			inconcl = true
		}
	}
	if bad && len(st.Violations) < 200 {
		st.Violations = append(st.Violations, *res)
	}
	if known && len(st.Known) < 50 {
		st.Known = append(st.Known, *res)
	}
	if inconcl && len(st.Inconcl) < 50 {
		st.Inconcl = append(st.Inconcl, *res)
	}
	if res.Outcome == "ok" && res.Model != nil && !bad {
		if len(st.Witnesses) < 400 {
			st.Witnesses = append(st.Witnesses, *res)
		} else {
			// reservoir-style replacement keeps the sample spread over the run
			k := int((e.seed + int64(st.Paths)*2654435761) % int64(st.Paths))
			if k < 0 {
				k = -k
			}
			if k < len(st.Witnesses) {
				st.Witnesses[k] = *res
			}
		}
	}
}
