package main

// One persistent solver process (z3 -in, z3-new -in or cvc5 --incremental). Terms are defined once at the
// base level (define-fun tN), queries are (push)(assert …)(check-sat)[(get-value …)](pop).

import (
	"bufio"
	"fmt"
	"io"
	"os"
	"os/exec"
	"strconv"
	"strings"
	"time"
)

type SatResult int8

const (
	Unknown SatResult = iota
	Sat
	Unsat
)

func (r SatResult) String() string { return [...]string{"unknown", "sat", "unsat"}[r] }

type Solver struct {
	name     string
	cmd      *exec.Cmd
	in       io.WriteCloser
	out      *bufio.Reader
	tb       *TB
	defined  map[int]bool
	ufDone   map[string]bool
	Queries  int
	Unknowns int
	Errors   int
	Time     time.Duration
	timeout  int // ms
	dead     bool
	logw     io.Writer
}

func NewSolver(kind string, tb *TB, timeoutMs int) (*Solver, error) {
	var cmd *exec.Cmd
	switch kind {
	case "z3":
		cmd = exec.Command("z3", "-in", "-smt2")
	case "z3-new":
		cmd = exec.Command("z3-new", "-in", "-smt2")
	case "cvc5":
		cmd = exec.Command("cvc5", "--incremental", "--lang=smt2", "--produce-models", fmt.Sprintf("--tlimit-per=%d", timeoutMs))
	default:
		return nil, fmt.Errorf("unknown solver %q", kind)
	}
	in, err := cmd.StdinPipe()
	if err != nil {
		return nil, err
	}
	outp, err := cmd.StdoutPipe()
	if err != nil {
		return nil, err
	}
	cmd.Stderr = cmd.Stdout
	if err := cmd.Start(); err != nil {
		return nil, err
	}
	s := &Solver{name: kind, cmd: cmd, in: in, out: bufio.NewReaderSize(outp, 1<<16), tb: tb, defined: map[int]bool{}, ufDone: map[string]bool{}, timeout: timeoutMs}
	if lp := os.Getenv("GOSYM_SMTLOG"); lp != "" {
		if f, err := os.OpenFile(lp, os.O_APPEND|os.O_CREATE|os.O_WRONLY, 0o644); err == nil {
			s.logw = f
		}
	}
	if kind == "cvc5" {
		s.send("(set-logic ALL)")
	} else {
		s.send(fmt.Sprintf("(set-option :timeout %d)", timeoutMs))
	}
	s.send("(set-option :produce-models true)")
	return s, nil
}

func (s *Solver) Close() {
	if s == nil || s.dead {
		return
	}
	s.dead = true
	s.in.Close()
	done := make(chan struct{})
	go func() { s.cmd.Wait(); close(done) }()
	select {
	case <-done:
	case <-time.After(2 * time.Second):
		s.cmd.Process.Kill()
	}
}

func (s *Solver) send(line string) {
	if s.logw != nil {
		fmt.Fprintln(s.logw, line)
	}
	io.WriteString(s.in, line)
	io.WriteString(s.in, "\n")
}

// define makes sure t and everything below it is known to the solver.
func (s *Solver) define(t *Term) {
	if s.defined[t.id] {
		return
	}
	// iterative post-order to avoid deep recursion
	type item struct {
		t *Term
		i int
	}
	st := []item{{t, 0}}
	for len(st) > 0 {
		top := &st[len(st)-1]
		if s.defined[top.t.id] {
			st = st[:len(st)-1]
			continue
		}
		if top.i < len(top.t.a) {
			c := top.t.a[top.i]
			top.i++
			if !s.defined[c.id] {
				st = append(st, item{c, 0})
			}
			continue
		}
		tt := top.t
		if tt.op == OpUF && !s.ufDone[tt.name] {
			s.ufDone[tt.name] = true
			s.send(s.tb.ufs[tt.name])
		}
		if d := tt.smtDef(); d != "" {
			s.send(d)
		}
		s.defined[tt.id] = true
		st = st[:len(st)-1]
	}
}

// readAnswer reads one s-expression or atom line-wise; returns the text.
func (s *Solver) readAnswer() (string, error) {
	var sb strings.Builder
	depth := 0
	started := false
	for {
		line, err := s.out.ReadString('\n')
		if err != nil && line == "" {
			return sb.String(), err
		}
		inStr := false
		for _, c := range line {
			switch {
			case c == '"':
				inStr = !inStr
			case inStr:
			case c == '(':
				depth++
				started = true
			case c == ')':
				depth--
			case c != ' ' && c != '\n' && c != '\t' && c != '\r':
				started = true
			}
		}
		sb.WriteString(line)
		if started && depth <= 0 {
			return strings.TrimSpace(sb.String()), nil
		}
	}
}

// Check decides the conjunction of the assertions; with wantModel it also returns values for vars.
func (s *Solver) Check(asserts []*Term, vars []*Term) (SatResult, Model) {
	if s.dead {
		return Unknown, nil
	}
	start := time.Now()
	defer func() { s.Time += time.Since(start) }()
	s.Queries++
	for _, a := range asserts {
		s.define(a)
	}
	for _, v := range vars {
		s.define(v)
	}
	s.send("(push 1)")
	for _, a := range asserts {
		s.send("(assert " + a.smtRef() + ")")
	}
	if s.name != "cvc5" && len(s.ufDone) == 0 && os.Getenv("GOSYM_NOTACTIC") == "" {
		s.send("(check-sat-using qfbv)")
	} else {
		s.send("(check-sat)")
	}
	ans, err := s.readAnswer()
	if err != nil {
		s.dead = true
		s.Errors++
		return Unknown, nil
	}
	res := Unknown
	switch {
	case strings.HasPrefix(ans, "sat"):
		res = Sat
	case strings.HasPrefix(ans, "unsat"):
		res = Unsat
	case strings.Contains(ans, "(error"):
		s.Errors++
		if s.logw != nil {
			fmt.Fprintln(s.logw, "; ERROR:", ans)
		}
	default:
		s.Unknowns++
	}
	var m Model
	if res == Sat && len(vars) > 0 {
		var sb strings.Builder
		sb.WriteString("(get-value (")
		for _, v := range vars {
			sb.WriteString(v.smtRef() + " ")
		}
		sb.WriteString("))")
		s.send(sb.String())
		txt, err := s.readAnswer()
		if err != nil || strings.Contains(txt, "(error") {
			s.Errors++
			res = Unknown
		} else {
			m = parseModel(txt)
		}
	}
	s.send("(pop 1)")
	if d := time.Since(start); d > 3*time.Second && os.Getenv("GOSYM_SLOW") != "" {
		f, _ := os.OpenFile(os.Getenv("GOSYM_SLOW"), os.O_APPEND|os.O_CREATE|os.O_WRONLY, 0o644)
		fmt.Fprintf(f, "SLOW %.1fs res=%v\n", d.Seconds(), res)
		for _, a := range asserts {
			fmt.Fprintf(f, "  %s\n", a.String())
		}
		f.Close()
	}
	return res, m
}

// parseModel parses ((|a| #x01) (|b| true) ...).
func parseModel(txt string) Model {
	m := Model{}
	i := 0
	n := len(txt)
	skip := func() {
		for i < n && (txt[i] == ' ' || txt[i] == '\n' || txt[i] == '\t' || txt[i] == '\r') {
			i++
		}
	}
	skip()
	if i < n && txt[i] == '(' {
		i++
	}
	for {
		skip()
		if i >= n || txt[i] == ')' {
			break
		}
		if txt[i] != '(' {
			break
		}
		i++
		skip()
		var name string
		if txt[i] == '|' {
			j := strings.IndexByte(txt[i+1:], '|')
			name = txt[i+1 : i+1+j]
			i = i + 2 + j
		} else {
			j := i
			for j < n && txt[j] != ' ' && txt[j] != '\n' {
				j++
			}
			name = txt[i:j]
			i = j
		}
		skip()
		// value: atom or (_ bvN w)
		var val uint64
		if txt[i] == '(' {
			j := strings.IndexByte(txt[i:], ')')
			f := strings.Fields(txt[i+1 : i+j])
			if len(f) >= 2 && strings.HasPrefix(f[1], "bv") {
				val, _ = strconv.ParseUint(f[1][2:], 10, 64)
			}
			i += j + 1
		} else {
			j := i
			for j < n && txt[j] != ')' && txt[j] != ' ' && txt[j] != '\n' {
				j++
			}
			a := txt[i:j]
			switch {
			case a == "true":
				val = 1
			case a == "false":
				val = 0
			case strings.HasPrefix(a, "#x"):
				val, _ = strconv.ParseUint(a[2:], 16, 64)
			case strings.HasPrefix(a, "#b"):
				val, _ = strconv.ParseUint(a[2:], 2, 64)
			}
			i = j
		}
		m[name] = val
		skip()
		if i < n && txt[i] == ')' {
			i++
		}
	}
	return m
}
