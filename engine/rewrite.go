package main

// Source rewriting for native replay (overlay copies only; /repo is never written):
//  - clock: time.Now()/Since()/Until() -> model clock (sequential time-dependent harnesses)
//  - sched: a scheduling point before every operation the engine treats as visible, so that a recorded schedule of a
//    concurrent counterexample can be forced on the natively compiled code.

import (
	"fmt"
	"go/ast"
	"go/printer"
	"go/token"
	"go/types"
	"os"
	"path/filepath"
	"strings"

	"golang.org/x/tools/go/packages"
)

const zzImportPath = "github.com/plgd-dev/go-coap/v3/pkg/errors"

// localHooks is set while a dependency package (outside go-coap) is rewritten: it cannot import go-coap, so the
// scheduling helpers are local functions delegating to hook variables that the harness package sets at init.
var localHooks bool

func schedCall(name string, args ...ast.Expr) *ast.CallExpr {
	if localHooks {
		local := map[string]string{"ZZSchedPV": "zzSchedPV", "ZZSchedPoint": "zzSchedPoint", "ZZSchedGo": "zzSchedGo", "ZZSchedSelect": "zzSchedSelect"}[name]
		return &ast.CallExpr{Fun: ast.NewIdent(local), Args: args}
	}
	return &ast.CallExpr{Fun: &ast.SelectorExpr{X: ast.NewIdent("zzclock"), Sel: ast.NewIdent(name)}, Args: args}
}

func depHooksFile(pkgName string) string {
	return "package " + pkgName + `

// hooks set by the replay harness (see zz_verif_deps.go in the package under test)
var ZZSchedPointFn func()
var ZZSchedGoFn func(func())
var ZZSchedSelectFn func() int

func zzSchedSelect() int {
	if ZZSchedSelectFn != nil {
		return ZZSchedSelectFn()
	}
	return -1
}

func zzSchedPoint() {
	if ZZSchedPointFn != nil {
		ZZSchedPointFn()
	}
}

func zzSchedPV[T any](v T) T {
	zzSchedPoint()
	return v
}

func zzSchedGo(f func()) {
	if ZZSchedGoFn != nil {
		ZZSchedGoFn(f)
		return
	}
	go f()
}
`
}

// visibleCallee reports whether a call to obj is a scheduling point in the engine.
func visibleCallee(obj *types.Func) bool {
	if obj == nil || obj.Pkg() == nil {
		return false
	}
	sig, _ := obj.Type().(*types.Signature)
	recvName := ""
	if sig != nil && sig.Recv() != nil {
		t := sig.Recv().Type()
		if p, ok := t.(*types.Pointer); ok {
			t = p.Elem()
		}
		if n, ok := t.(*types.Named); ok {
			recvName = n.Obj().Name()
		}
	}
	name := obj.Name()
	switch obj.Pkg().Path() {
	case "sync":
		switch recvName {
		case "Mutex":
			return name == "Lock" || name == "TryLock"
		case "RWMutex":
			return name == "Lock" || name == "RLock" || name == "TryLock" || name == "TryRLock"
		case "WaitGroup":
			return name == "Done" || name == "Wait"
		case "Map":
			switch name {
			case "Load", "Store", "LoadOrStore", "LoadAndDelete", "Delete", "Range":
				return true
			}
		}
	case "go.uber.org/atomic":
		if recvName == "" {
			return false
		}
		switch name {
		case "String", "MarshalJSON", "UnmarshalJSON":
			return false
		}
		return true
	case "sync/atomic":
		if recvName != "" {
			return true
		}
		for _, p := range []string{"Load", "Store", "Add", "Swap", "CompareAndSwap", "And", "Or"} {
			if strings.HasPrefix(name, p) {
				return true
			}
		}
	case "runtime":
		return name == "Gosched"
	case "time":
		return recvName == "" && name == "Sleep"
	}
	return false
}

type rewriter struct {
	info    *types.Info
	clock   bool
	sched   bool
	changed bool
	timePkg string
	selN    int
}

func (rw *rewriter) calleeFunc(call *ast.CallExpr) *types.Func {
	switch f := call.Fun.(type) {
	case *ast.SelectorExpr:
		if o, ok := rw.info.Uses[f.Sel].(*types.Func); ok {
			return o
		}
	case *ast.Ident:
		if o, ok := rw.info.Uses[f].(*types.Func); ok {
			return o
		}
	}
	return nil
}

// instrumentCall wraps the receiver (or the first pointer argument) of a visible call with a scheduling point.
func (rw *rewriter) instrumentCall(call *ast.CallExpr) bool {
	obj := rw.calleeFunc(call)
	if !visibleCallee(obj) {
		return false
	}
	sig := obj.Type().(*types.Signature)
	if sig.Recv() == nil {
		// package-level function: sync/atomic.X(&v, ...), runtime.Gosched(), time.Sleep(d)
		if len(call.Args) > 0 && obj.Pkg().Path() == "sync/atomic" {
			call.Args[0] = schedCall("ZZSchedPV", call.Args[0])
			return true
		}
		return false // handled at statement level
	}
	sel, ok := call.Fun.(*ast.SelectorExpr)
	if !ok {
		return false
	}
	recv := sel.X
	_, ptrRecv := sig.Recv().Type().(*types.Pointer)
	if tv, ok := rw.info.Types[recv]; ok && ptrRecv {
		if _, isPtr := tv.Type.Underlying().(*types.Pointer); !isPtr {
			recv = &ast.UnaryExpr{Op: token.AND, X: recv}
		}
	}
	sel.X = schedCall("ZZSchedPV", recv)
	return true
}

func (rw *rewriter) rewriteExpr(n ast.Node) {
	ast.Inspect(n, func(x ast.Node) bool {
		switch e := x.(type) {
		case *ast.FuncLit:
			rw.rewriteBlock(e.Body)
			return false
		case *ast.CallExpr:
			if rw.clock {
				if sel, ok := e.Fun.(*ast.SelectorExpr); ok {
					if o, ok := rw.info.Uses[sel.Sel].(*types.Func); ok && o.Pkg() != nil && o.Pkg().Path() == "time" && o.Type().(*types.Signature).Recv() == nil {
						switch o.Name() {
						case "Now":
							e.Fun = &ast.SelectorExpr{X: ast.NewIdent("zzclock"), Sel: ast.NewIdent("ZZClockNow")}
							rw.changed = true
						case "Since":
							e.Fun = &ast.SelectorExpr{X: schedCall("ZZClockNow"), Sel: ast.NewIdent("Sub")}
							rw.changed = true
						case "Until":
							arg := e.Args[0]
							e.Fun = &ast.SelectorExpr{X: &ast.ParenExpr{X: arg}, Sel: ast.NewIdent("Sub")}
							e.Args = []ast.Expr{schedCall("ZZClockNow")}
							rw.changed = true
						}
					}
				}
			}
			if rw.sched {
				if id, ok := e.Fun.(*ast.Ident); ok && id.Name == "close" && len(e.Args) == 1 {
					if _, isB := rw.info.Uses[id].(*types.Builtin); isB {
						e.Args[0] = schedCall("ZZSchedPV", e.Args[0])
						rw.changed = true
					}
				} else if rw.instrumentCall(e) {
					rw.changed = true
				}
			}
		case *ast.UnaryExpr:
			if rw.sched && e.Op == token.ARROW {
				e.X = schedCall("ZZSchedPV", e.X)
				rw.changed = true
			}
		}
		return true
	})
}

func pointStmt() ast.Stmt { return &ast.ExprStmt{X: schedCall("ZZSchedPoint")} }

func (rw *rewriter) rewriteStmtList(list []ast.Stmt) []ast.Stmt {
	var out []ast.Stmt
	for _, s := range list {
		out = append(out, rw.rewriteStmt(s)...)
	}
	return out
}

func (rw *rewriter) rewriteBlock(b *ast.BlockStmt) {
	if b != nil {
		b.List = rw.rewriteStmtList(b.List)
	}
}

// rewriteStmt returns the statements replacing s (possibly preceded by a scheduling point).
func (rw *rewriter) rewriteStmt(s ast.Stmt) []ast.Stmt {
	switch st := s.(type) {
	case *ast.BlockStmt:
		rw.rewriteBlock(st)
	case *ast.IfStmt:
		if st.Init != nil {
			rw.rewriteSimple(st.Init)
		}
		rw.rewriteExpr(st.Cond)
		rw.rewriteBlock(st.Body)
		if st.Else != nil {
			r := rw.rewriteStmt(st.Else)
			if len(r) == 1 {
				st.Else = r[0]
			} else {
				st.Else = &ast.BlockStmt{List: r}
			}
		}
	case *ast.ForStmt:
		if st.Init != nil {
			rw.rewriteSimple(st.Init)
		}
		if st.Cond != nil {
			rw.rewriteExpr(st.Cond)
		}
		if st.Post != nil {
			rw.rewriteSimple(st.Post)
		}
		rw.rewriteBlock(st.Body)
	case *ast.RangeStmt:
		rw.rewriteExpr(st.X)
		rw.rewriteBlock(st.Body)
	case *ast.SwitchStmt:
		if st.Init != nil {
			rw.rewriteSimple(st.Init)
		}
		if st.Tag != nil {
			rw.rewriteExpr(st.Tag)
		}
		for _, c := range st.Body.List {
			cc := c.(*ast.CaseClause)
			for _, e := range cc.List {
				rw.rewriteExpr(e)
			}
			cc.Body = rw.rewriteStmtList(cc.Body)
		}
	case *ast.TypeSwitchStmt:
		if st.Init != nil {
			rw.rewriteSimple(st.Init)
		}
		rw.rewriteSimple(st.Assign)
		for _, c := range st.Body.List {
			cc := c.(*ast.CaseClause)
			cc.Body = rw.rewriteStmtList(cc.Body)
		}
	case *ast.SelectStmt:
		for _, c := range st.Body.List {
			cc := c.(*ast.CommClause)
			cc.Body = rw.rewriteStmtList(cc.Body) // the communication itself belongs to the select
		}
		if rw.sched {
			rw.changed = true
			// Go evaluates every channel operand (and send value) once, in source order, on entering the select;
			// they are hoisted so that scheduling points inside them come before the select's own point, as in
			// the engine
			var pre []ast.Stmt
			hoist := func(e ast.Expr) ast.Expr {
				rw.rewriteExpr(e)
				rw.selN++
				id := ast.NewIdent(fmt.Sprintf("zzsel%d", rw.selN))
				pre = append(pre, &ast.AssignStmt{Lhs: []ast.Expr{id}, Tok: token.DEFINE, Rhs: []ast.Expr{e}})
				return id
			}
			for _, c := range st.Body.List {
				cc := c.(*ast.CommClause)
				switch comm := cc.Comm.(type) {
				case *ast.SendStmt:
					comm.Chan = hoist(comm.Chan)
					comm.Value = hoist(comm.Value)
				case *ast.ExprStmt:
					if u, ok := comm.X.(*ast.UnaryExpr); ok && u.Op == token.ARROW {
						u.X = hoist(u.X)
					}
				case *ast.AssignStmt:
					if len(comm.Rhs) == 1 {
						if u, ok := comm.Rhs[0].(*ast.UnaryExpr); ok && u.Op == token.ARROW {
							u.X = hoist(u.X)
						}
					}
				}
			}
			// the engine's choice among several ready cases is forced: one single-case select per recorded choice
			sw := &ast.SwitchStmt{Tag: schedCall("ZZSchedSelect"), Body: &ast.BlockStmt{}}
			k := 0
			for _, c := range st.Body.List {
				cc := c.(*ast.CommClause)
				if cc.Comm == nil {
					continue
				}
				one := &ast.SelectStmt{Body: &ast.BlockStmt{List: []ast.Stmt{cc}}}
				sw.Body.List = append(sw.Body.List, &ast.CaseClause{List: []ast.Expr{&ast.BasicLit{Kind: token.INT, Value: fmt.Sprint(k)}}, Body: []ast.Stmt{one}})
				k++
			}
			sw.Body.List = append(sw.Body.List, &ast.CaseClause{Body: []ast.Stmt{st}})
			return []ast.Stmt{&ast.BlockStmt{List: append(append(pre, pointStmt()), sw)}}
		}
	case *ast.LabeledStmt:
		r := rw.rewriteStmt(st.Stmt)
		if len(r) == 1 {
			st.Stmt = r[0]
		} else {
			st.Stmt = &ast.BlockStmt{List: r}
		}
	case *ast.SendStmt:
		rw.rewriteExpr(st.Value)
		if rw.sched {
			rw.changed = true
			if localHooks {
				return []ast.Stmt{pointStmt(), st}
			}
			// a send may block until the receiver's turn: the helper releases the replay token while it waits.
			// Channel and value are evaluated once, in order; the send itself stays an ordinary send statement
			// inside closures, so every implicit conversion (concrete value into an interface channel, untyped
			// constant) is the compiler's business
			tag := int(st.Pos())
			ch := ast.NewIdent(fmt.Sprintf("zzsc%d", tag))
			pre := []ast.Stmt{&ast.AssignStmt{Lhs: []ast.Expr{ch}, Tok: token.DEFINE, Rhs: []ast.Expr{st.Chan}}}
			var val ast.Expr = st.Value
			if tv, ok := rw.info.Types[st.Value]; !(ok && (tv.Value != nil || tv.IsNil())) {
				v := ast.NewIdent(fmt.Sprintf("zzsv%d", tag))
				pre = append(pre, &ast.AssignStmt{Lhs: []ast.Expr{v}, Tok: token.DEFINE, Rhs: []ast.Expr{st.Value}})
				val = v
			}
			try := &ast.FuncLit{Type: &ast.FuncType{Params: &ast.FieldList{}, Results: &ast.FieldList{List: []*ast.Field{{Type: ast.NewIdent("bool")}}}},
				Body: &ast.BlockStmt{List: []ast.Stmt{&ast.SelectStmt{Body: &ast.BlockStmt{List: []ast.Stmt{
					&ast.CommClause{Comm: &ast.SendStmt{Chan: ch, Value: val}, Body: []ast.Stmt{&ast.ReturnStmt{Results: []ast.Expr{ast.NewIdent("true")}}}},
					&ast.CommClause{Body: []ast.Stmt{&ast.ReturnStmt{Results: []ast.Expr{ast.NewIdent("false")}}}},
				}}}}}}
			block := &ast.FuncLit{Type: &ast.FuncType{Params: &ast.FieldList{}}, Body: &ast.BlockStmt{List: []ast.Stmt{&ast.SendStmt{Chan: ch, Value: val}}}}
			unbuf := &ast.BinaryExpr{X: &ast.CallExpr{Fun: ast.NewIdent("cap"), Args: []ast.Expr{ch}}, Op: token.EQL, Y: &ast.BasicLit{Kind: token.INT, Value: "0"}}
			call := &ast.ExprStmt{X: schedCall("ZZSchedSendFn", try, block, unbuf)}
			return []ast.Stmt{&ast.BlockStmt{List: append(pre, call)}}
		}
	case *ast.GoStmt:
		if rw.sched {
			// go f(args) -> zzclock.ZZSchedGo(func() { f(args) }) with the arguments evaluated first, as `go` does
			rw.changed = true
			var pre []ast.Stmt
			call := st.Call
			if fl, ok := call.Fun.(*ast.FuncLit); ok {
				rw.rewriteBlock(fl.Body)
			}
			for i, a := range call.Args {
				if tv, ok := rw.info.Types[a]; ok && tv.Value != nil {
					continue // a constant: nothing to evaluate early, and hoisting it would lose its untyped-ness
				}
				tmp := ast.NewIdent(fmt.Sprintf("zzarg%d_%d", int(st.Pos()), i))
				pre = append(pre, &ast.AssignStmt{Lhs: []ast.Expr{tmp}, Tok: token.DEFINE, Rhs: []ast.Expr{a}})
				call.Args[i] = tmp
			}
			body := &ast.BlockStmt{List: []ast.Stmt{&ast.ExprStmt{X: call}}}
			goCall := &ast.ExprStmt{X: schedCall("ZZSchedGo", &ast.FuncLit{Type: &ast.FuncType{Params: &ast.FieldList{}}, Body: body})}
			return append(append([]ast.Stmt{pointStmt()}, pre...), goCall)
		}
	case *ast.DeferStmt:
		if id, ok := st.Call.Fun.(*ast.Ident); ok && rw.sched && id.Name == "close" && len(st.Call.Args) == 1 {
			if _, isB := rw.info.Uses[id].(*types.Builtin); isB {
				// defer close(ch): the operand is evaluated now, the scheduling point belongs to the deferred close
				rw.rewriteExpr(st.Call.Args[0])
				tmp := ast.NewIdent(fmt.Sprintf("zzdc%d", int(st.Pos())))
				pre := &ast.AssignStmt{Lhs: []ast.Expr{tmp}, Tok: token.DEFINE, Rhs: []ast.Expr{st.Call.Args[0]}}
				inner := &ast.CallExpr{Fun: ast.NewIdent("close"), Args: []ast.Expr{schedCall("ZZSchedPV", tmp)}}
				st.Call = &ast.CallExpr{Fun: &ast.FuncLit{Type: &ast.FuncType{Params: &ast.FieldList{}}, Body: &ast.BlockStmt{List: []ast.Stmt{&ast.ExprStmt{X: inner}}}}}
				rw.changed = true
				return []ast.Stmt{pre, st}
			}
		}
		if fl, ok := st.Call.Fun.(*ast.FuncLit); ok {
			rw.rewriteBlock(fl.Body)
			for _, a := range st.Call.Args {
				rw.rewriteExpr(a)
			}
		} else if rw.sched && len(st.Call.Args) == 0 && visibleCallee(rw.calleeFunc(st.Call)) {
			// the scheduling point belongs to the execution of the deferred call, not to the defer statement
			inner := &ast.CallExpr{Fun: st.Call.Fun}
			rw.instrumentCall(inner)
			st.Call = &ast.CallExpr{Fun: &ast.FuncLit{Type: &ast.FuncType{Params: &ast.FieldList{}}, Body: &ast.BlockStmt{List: []ast.Stmt{&ast.ExprStmt{X: inner}}}}}
			rw.changed = true
		} else {
			for _, a := range st.Call.Args {
				rw.rewriteExpr(a)
			}
		}
	case *ast.ExprStmt:
		if rw.sched {
			if call, ok := st.X.(*ast.CallExpr); ok {
				if o := rw.calleeFunc(call); o != nil && o.Pkg() != nil && visibleCallee(o) && o.Type().(*types.Signature).Recv() == nil && o.Pkg().Path() != "sync/atomic" {
					rw.changed = true
					return []ast.Stmt{pointStmt(), st}
				}
			}
		}
		rw.rewriteExpr(st.X)
	default:
		rw.rewriteSimple(s)
	}
	return []ast.Stmt{s}
}

func (rw *rewriter) rewriteSimple(s ast.Stmt) {
	if s != nil {
		rw.rewriteExpr(s)
	}
}

// buildRewriteOverlay writes rewritten copies of the files of the given package directories to scratch.
// ghostInstrument adds the ownership ghost hooks to package message/pool: a use hook at the start of every
// method of *Message, and wrappers around (*Pool).AcquireMessage / ReleaseMessage.
func ghostInstrument(fd *ast.FuncDecl) string {
	if fd.Recv == nil || len(fd.Recv.List) != 1 {
		return ""
	}
	star, ok := fd.Recv.List[0].Type.(*ast.StarExpr)
	if !ok {
		return ""
	}
	id, ok := star.X.(*ast.Ident)
	if !ok {
		return ""
	}
	switch id.Name {
	case "Message":
		if len(fd.Recv.List[0].Names) == 1 && fd.Recv.List[0].Names[0].Name != "_" && fd.Name.Name != "IsHijacked" {
			r := fd.Recv.List[0].Names[0].Name
			call := schedCall("ZZGhostUse", ast.NewIdent(r), schedCall("ZZInPool"))
			call.Fun.(*ast.SelectorExpr).Sel = ast.NewIdent("ZZGhostUse")
			fd.Body.List = append([]ast.Stmt{&ast.ExprStmt{X: call}}, fd.Body.List...)
		}
	case "Pool":
		switch fd.Name.Name {
		case "AcquireMessage":
			fd.Name = ast.NewIdent("zzOrigAcquireMessage")
			return "\nfunc (p *Pool) AcquireMessage(ctx context.Context) *Message {\n\tm := p.zzOrigAcquireMessage(ctx)\n\tzzclock.ZZGhostAcquired(m)\n\treturn m\n}\n"
		case "ReleaseMessage":
			fd.Name = ast.NewIdent("zzOrigReleaseMessage")
			return "\nfunc (p *Pool) ReleaseMessage(req *Message) {\n\tzzclock.ZZGhostReleaseEnter(req)\n\tzzclock.ZZPoolEnter()\n\tp.zzOrigReleaseMessage(req)\n\tzzclock.ZZPoolLeave()\n\tzzclock.ZZGhostReleased(req)\n}\n"
		}
	}
	return ""
}

func buildRewriteOverlay(pkgs map[string]*packages.Package, repo string, clockDirs, schedDirs []string, scratch string, replace map[string]string, curPkg string, ghost bool) error {
	if ghost {
		// the pool package must be rewritten even if it is in no other list
		found := false
		for _, d := range schedDirs {
			if d == "message/pool" {
				found = true
			}
		}
		if !found {
			clockDirs = append(append([]string(nil), clockDirs...), "message/pool")
		}
	}
	dirs := map[string][2]bool{}
	for _, d := range clockDirs {
		v := dirs[d]
		v[0] = true
		dirs[d] = v
	}
	for _, d := range schedDirs {
		v := dirs[d]
		v[1] = true
		dirs[d] = v
	}
	n := 0
	for dir, flags := range dirs {
		p := pkgs[dir]
		if p == nil {
			return fmt.Errorf("rewrite: package %s not loaded (add a harness entry for it)", dir)
		}
		isDep := !strings.HasPrefix(p.PkgPath, modulePath)
		localHooks = isDep
		hooksDone := false
		for i, f := range p.Syntax {
			path := p.CompiledGoFiles[i]
			if strings.HasSuffix(path, "zz_verif_sym.go") || strings.HasSuffix(path, "_test.go") {
				continue
			}
			if !strings.HasSuffix(path, ".go") {
				continue
			}
			if strings.HasPrefix(filepath.Base(path), "zz_verif_h_") && dir != curPkg {
				continue // harness files exist natively only in the package under test
			}
			rw := &rewriter{info: p.TypesInfo, clock: flags[0], sched: flags[1]}
			ghostPkg := ghost && dir == "message/pool"
			extra := ""
			if dir == "message/pool" {
				// sync.Pool may drop or migrate items at any time; the engine models it as a LIFO stack, so the
				// native replay uses a deterministic LIFO pool as well
				ast.Inspect(f, func(n ast.Node) bool {
					fld, ok := n.(*ast.Field)
					if !ok {
						return true
					}
					if sel, ok := fld.Type.(*ast.SelectorExpr); ok {
						if id, ok := sel.X.(*ast.Ident); ok && id.Name == "sync" && sel.Sel.Name == "Pool" {
							fld.Type = &ast.SelectorExpr{X: ast.NewIdent("zzclock"), Sel: ast.NewIdent("ZZPool")}
							rw.changed = true
						}
					}
					return true
				})
			}
			for _, d := range f.Decls {
				if fd, ok := d.(*ast.FuncDecl); ok && fd.Body != nil {
					rw.rewriteBlock(fd.Body)
					if ghostPkg {
						if e := ghostInstrument(fd); e != "" {
							extra += e
						}
						rw.changed = true
					}
				}
				if gd, ok := d.(*ast.GenDecl); ok && gd.Tok == token.VAR {
					for _, sp := range gd.Specs {
						for _, v := range sp.(*ast.ValueSpec).Values {
							rw.rewriteExpr(v)
						}
					}
				}
			}
			if !rw.changed {
				continue
			}
			var sb strings.Builder
			if err := printer.Fprint(&sb, p.Fset, f); err != nil {
				return err
			}
			src := sb.String()
			idx := strings.Index(src, "import (")
			if isDep {
				// no import needed: helpers are local
			} else if idx >= 0 {
				src = src[:idx+len("import (")] + "\n\tzzclock \"" + zzImportPath + "\"" + src[idx+len("import ("):]
			} else if pk := strings.Index(src, "\nimport "); pk >= 0 {
				src = src[:pk+1] + "import zzclock \"" + zzImportPath + "\"\n" + src[pk+1:]
			} else {
				nl := strings.Index(src[strings.Index(src, "package "):], "\n") + strings.Index(src, "package ")
				src = src[:nl+1] + "\nimport zzclock \"" + zzImportPath + "\"\n" + src[nl+1:]
			}
			if isDep && !hooksDone {
				// a file added to a module-cache directory is not picked up by the overlay, so the hook
				// definitions are appended to the first rewritten file of the package
				h := depHooksFile(p.Name)
				src += h[strings.Index(h, "\n"):]
				hooksDone = true
			}
			for _, im := range f.Imports {
				if im.Path.Value == "\"sync\"" && dir == "message/pool" {
					src += "\nvar _ sync.Mutex\n"
				}
				if im.Path.Value == "\"time\"" {
					nm := "time"
					if im.Name != nil {
						nm = im.Name.Name
					}
					src += "\nvar _ " + nm + ".Duration\n"
				}
			}
			src += extra
			n++
			out := filepath.Join(scratch, fmt.Sprintf("rw_%d_%s", n, filepath.Base(path)))
			if err := os.WriteFile(out, []byte(src), 0o644); err != nil {
				return err
			}
			replace[path] = out
		}
	}
	localHooks = false
	return nil
}
