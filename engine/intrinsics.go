package main

// Harness intrinsics: bodiless sym* functions declared in the overlay file zz_verif_sym.go.

import (
	"fmt"
	"go/types"
	"strings"

	"golang.org/x/tools/go/ssa"
)

func (in *Interp) strArg(v Value) string {
	s, ok := v.(StrV).concrete()
	if !ok {
		panic(in.unsupported("intrinsic needs a constant string argument"))
	}
	return s
}

func stubIntrinsic(in *Interp, th *Thread, fn *ssa.Function, a []Value) (Value, stubStatus) {
	tb := in.tb
	name := fn.Name()
	switch name {
	case "symU8", "symI8":
		return in.freshInput(in.strArg(a[0]), 8), stDone
	case "symU16", "symI16":
		return in.freshInput(in.strArg(a[0]), 16), stDone
	case "symU32", "symI32":
		return in.freshInput(in.strArg(a[0]), 32), stDone
	case "symU64", "symI64", "symInt", "symUint":
		return in.freshInput(in.strArg(a[0]), 64), stDone
	case "symBool":
		return in.freshInput(in.strArg(a[0]), 0), stDone
	case "symBytes":
		nm := in.strArg(a[0])
		n := int(in.concretize(in.intTerm(a[1]), "symBytes len"))
		if n < 0 || n > 1<<20 {
			panic(in.unsupported("symBytes length"))
		}
		arr := in.newArrayCell(types.Typ[types.Uint8], n, "symBytes "+nm)
		for i := 0; i < n; i++ {
			arr.kids[i].v = in.freshInput(fmt.Sprintf("%s[%d]", nm, i), 8)
		}
		return SliceV{arr: arr, off: 0, len: n, cap: n}, stDone
	case "symString":
		nm := in.strArg(a[0])
		n := int(in.concretize(in.intTerm(a[1]), "symString len"))
		b := make([]*Term, n)
		for i := range b {
			b[i] = in.freshInput(fmt.Sprintf("%s[%d]", nm, i), 8)
		}
		return StrV{b}, stDone
	case "symAssume":
		c := a[0].(*Term)
		if in.check(c) == Unsat {
			panic(abort{abInfeasible, "assumption unsatisfiable"})
		}
		in.assumeTerm(c)
		return nil, stDone
	case "symAssert":
		in.doAssert(a[0].(*Term), in.strArg(a[1]))
		return nil, stDone
	case "symCover":
		in.covers[in.strArg(a[0])] = true
		return nil, stDone
	case "symChoose":
		n := int(in.concretize(in.intTerm(a[1]), "symChoose n"))
		k := in.decide("choose:"+in.strArg(a[0]), n)
		in.chooses = append(in.chooses, k)
		return tb.Const(uint64(k), 64), stDone
	case "symConcrete":
		return in.tb.Const(uint64(in.concretize(in.intTerm(a[0]), "symConcrete")), 64), stDone
	case "symParam":
		nm := in.strArg(a[0])
		if v, ok := in.params[nm]; ok {
			return tb.Const(uint64(v), 64), stDone
		}
		return a[1], stDone
	case "symObserve":
		in.observes = append(in.observes, Observation{Name: in.strArg(a[0]), Val: a[1]})
		return nil, stDone
	case "symLoopBound":
		in.loopBoundOverride = int(in.concretize(in.intTerm(a[0]), "loop bound"))
		return nil, stDone
	case "symSetNow":
		in.nowT = in.timeNs(a[0])
		in.nowPinned = true
		return nil, stDone
	case "symUnpinNow":
		in.nowPinned = false
		return nil, stDone
	case "symYield":
		if !in.visible(th, th.top(), "symYield", nil) {
			return nil, stYield
		}
		return nil, stDone
	case "symSchedCanonical":
		// on: among several runnable threads the current one, else the one with the lowest id, runs (one canonical
		// run-to-quiescence schedule instead of a decision); harness-level choices still fork
		in.canonical = a[0].(*Term).op == OpTrue
		return nil, stDone
	case "symPreemptBudget":
		// from here on at most n further preemptions (never more than the harness' bound allows in total)
		t := a[0].(*Term)
		if !t.IsConst() {
			panic(in.unsupported("symPreemptBudget needs a concrete argument"))
		}
		in.preemptLim = in.preempts + int(t.val)
		return nil, stDone
	case "symIdle":
		// blocks until no other thread can run: the rest of the system is quiescent
		if !in.visible(th, th.top(), "symIdle", func() bool {
			for _, t := range in.threads {
				if t == th || t.done {
					continue
				}
				if !t.atVisible || t.enabled == nil || t.enabled() {
					return false
				}
			}
			return true
		}) {
			return nil, stYield
		}
		return nil, stDone
	case "symWaitUntil":
		pred := a[0].(FuncV)
		if !in.visible(th, th.top(), "symWaitUntil", func() (res bool) {
			// evaluated on a scratch thread so that the waiting thread's stack is untouched
			scratch := &Thread{id: -1, name: "waituntil"}
			saved := in.cur
			in.cur = scratch
			defer func() {
				if r := recover(); r != nil {
					if _, ok := r.(waitBlocked); ok {
						in.cur = saved
						res = false // the predicate needs a lock that is held: not enabled now
						return
					}
					panic(r)
				}
			}()
			r := in.callSync(scratch, pred, nil)
			in.cur = saved
			t := r.(*Term)
			if !t.IsConst() {
				panic(in.unsupported("symWaitUntil predicate is symbolic"))
			}
			return t.op == OpTrue
		}) {
			return nil, stYield
		}
		return nil, stDone
	case "symSameObject":
		x, y := a[0].(SliceV), a[1].(SliceV)
		return tb.Bool(x.arr != nil && y.arr != nil && x.arr.obj == y.arr.obj), stDone
	case "symKnown":
		id := in.strArg(a[0])
		if in.knownIDs[id] {
			in.known = append(in.known, knownRegion{id: id, cond: a[1].(*Term)})
		}
		return nil, stDone
	case "symGhost":
		in.ghostOn = a[0].(*Term).op == OpTrue
		return nil, stDone
	case "symReleased":
		v := a[0]
		if iv, ok := v.(IfaceV); ok {
			v = iv.v
		}
		p, _ := v.(Ptr)
		return tb.Bool(p.c != nil && p.c.obj != nil && p.c.obj.released), stDone
	case "symNote":
		in.note("harness:" + in.strArg(a[0]))
		return nil, stDone
	}
	if strings.HasPrefix(name, "sym") {
		panic(in.unsupported("unknown intrinsic " + name))
	}
	panic(in.unsupported("bodiless function " + fn.String()))
}

// doAssert discharges one obligation: pc ∧ ¬c must be unsatisfiable (outside the known-finding regions).
func (in *Interp) doAssert(c *Term, label string) {
	in.nObl++
	tb := in.tb
	neg := tb.BNot(c)
	rec := AssertRec{Label: label}
	if neg.op == OpFalse {
		in.nDischarged++
		in.asserts = append(in.asserts, rec)
		return
	}
	outside := neg
	for _, k := range in.known {
		outside = tb.BAnd(outside, tb.BNot(k.cond))
	}
	r := in.check(outside)
	if r == Unsat && in.sol2 != nil {
		// cross-check the verdict with the second solver
		t := tb.BAnd(in.pc, outside)
		if t.op != OpFalse {
			r2, _ := in.sol2.Check([]*Term{t}, nil)
			if r2 != Unsat {
				in.note(fmt.Sprintf("solver-disagreement:%s:%v", label, r2))
				r = Unknown
			}
			in.nCross++
		}
	}
	switch r {
	case Sat:
		m, _ := in.modelFor(outside)
		rec.Failed = true
		rec.Model = in.completeModel(m)
	case Unknown:
		rec.Unknown = true
	case Unsat:
		// inside a known region?
		for _, k := range in.known {
			kc := tb.BAnd(neg, k.cond)
			if in.check(kc) == Sat {
				rec.Known = k.id
				m, _ := in.modelFor(kc)
				rec.Model = in.completeModel(m)
				break
			}
		}
		if rec.Known == "" {
			in.nDischarged++
		}
	}
	in.asserts = append(in.asserts, rec)
	// continue under the assumption that the assertion holds
	if in.check(c) == Unsat {
		panic(abort{abCut, "assertion fails on every input of this path"})
	}
	in.assumeTerm(c)
}

// completeModel restricts/extends m to this path's inputs.
func (in *Interp) completeModel(m Model) Model {
	out := Model{}
	for _, v := range in.inputs {
		out[v.name] = m[v.name] & mask64(v.w)
	}
	return out
}
