package main

// Environment models: functions without an SSA body, or whose body cannot be interpreted (unsafe, runtime
// hooks, formatting). Each model used by a run is listed in the evidence.

import (
	"fmt"
	"go/types"
	"hash/crc64"
	"strconv"
	"strings"

	"golang.org/x/tools/go/ssa"
)

type stubStatus int

const (
	stDone stubStatus = iota
	stYield
	stPushed
	stPanicked
)

type callCtx struct {
	dst     ssa.Value
	isDefer bool
}

type stubFn func(in *Interp, th *Thread, fn *ssa.Function, args []Value) (Value, stubStatus)

func stubName(fn *ssa.Function) string {
	if o := fn.Origin(); o != nil {
		return o.String()
	}
	return fn.String()
}

func (in *Interp) findStub(fn *ssa.Function) stubFn {
	name := stubName(fn)
	if st, ok := in.stubs[name]; ok {
		return st
	}
	if strings.HasPrefix(name, "sync/atomic.") && fn.Blocks == nil {
		return stubAtomicIntrinsic
	}
	if fn.Blocks == nil && fn.Pkg != nil && in.coapPkgs[fn.Pkg] && strings.HasPrefix(fn.Name(), "sym") {
		return stubIntrinsic
	}
	if fn.Pkg != nil && (fn.Pkg.Pkg.Path() == "fmt" || fn.Pkg.Pkg.Path() == "log") {
		return stubFmt
	}
	return nil
}

// userContext reports whether the innermost frame that is not a synchronisation wrapper belongs to go-coap or a
// harness; only then synchronisation operations are scheduling points.
func (in *Interp) userContext(th *Thread) bool {
	for i := len(th.frames) - 1; i >= 0; i-- {
		fn := th.frames[i].fn
		p := fn.Pkg
		if p == nil && fn.Origin() != nil {
			p = fn.Origin().Pkg
		}
		if p != nil {
			switch p.Pkg.Path() {
			case "go.uber.org/atomic":
				if strings.HasPrefix(fn.Name(), "New") {
					return false // initialising store of a constructor: the object is not shared yet
				}
				continue
			case "sync", "sync/atomic":
				continue
			}
			return in.coapPkgs[p]
		}
		if strings.Contains(fn.String(), "go.uber.org/atomic") || strings.Contains(fn.String(), "sync/atomic") {
			continue
		}
		return strings.Contains(fn.String(), "plgd-dev/go-coap")
	}
	return false
}

func (in *Interp) syncPoint(th *Thread, desc string, enabled func() bool) bool {
	if !in.userContext(th) {
		if enabled == nil || enabled() {
			return true
		}
	}
	return in.visible(th, th.top(), desc, enabled)
}

func (in *Interp) unit() Value { return nil }

func (in *Interp) timeVal(ns *Term) Value {
	return StructV{[]Value{in.tb.Const(0, 64), ns, Ptr{}}}
}

func (in *Interp) timeNs(v Value) *Term {
	s := v.(StructV)
	w := s.f[0].(*Term)
	if !(w.op == OpConst && w.val == 0) {
		panic(in.unsupported("time.Time with non-zero wall field"))
	}
	return s.f[1].(*Term)
}

func (in *Interp) now() *Term {
	if in.cur != nil && in.cur.id < 0 {
		// package initialisers (e.g. random seeds) get their own instant outside the now#k sequence
		t := in.freshInput("initnow", 64)
		in.assumeTerm(in.tb.Cmp(OpSlt, in.tb.Const(1<<40, 64), t))
		in.assumeTerm(in.tb.Cmp(OpSlt, t, in.tb.Const(1<<61, 64)))
		return t
	}
	if in.nowT == nil {
		in.nowT = in.freshInput("clk", 64)
		// instants stay well inside the int64 range and after the zero time
		in.assumeTerm(in.tb.Cmp(OpSlt, in.tb.Const(1<<40, 64), in.nowT))
		in.assumeTerm(in.tb.Cmp(OpSlt, in.nowT, in.tb.Const(1<<61, 64)))
		return in.nowT
	}
	if in.nowPinned {
		return in.nowT
	}
	n := in.freshInput("clk", 64)
	in.assumeTerm(in.tb.Cmp(OpSle, in.nowT, n))
	in.assumeTerm(in.tb.Cmp(OpSlt, n, in.tb.Const(1<<61, 64)))
	in.nowT = n
	return n
}

func (in *Interp) freshInput(name string, w int) *Term {
	k := in.inputSeq[name]
	in.inputSeq[name] = k + 1
	full := name
	if k > 0 || name == "clk" {
		full = fmt.Sprintf("%s#%d", name, k)
	}
	t := in.tb.Var(full, w)
	in.inputs = append(in.inputs, t)
	return t
}

func cellOf(v Value) *Cell {
	p := v.(Ptr)
	return p.c
}

func (in *Interp) initStubs() {
	s := map[string]stubFn{}
	in.stubs = s
	tb := in.tb

	// ---- sync ----
	s["(*sync.Mutex).Lock"] = func(in *Interp, th *Thread, fn *ssa.Function, a []Value) (Value, stubStatus) {
		m := in.mutex(cellOf(a[0]))
		if !in.syncPoint(th, "Mutex.Lock", func() bool { return !m.writer && m.readers == 0 }) {
			return nil, stYield
		}
		m.writer = true
		in.raceAcquire(m)
		in.raceAcquire(raceReaders{m})
		return nil, stDone
	}
	s["(*sync.Mutex).TryLock"] = func(in *Interp, th *Thread, fn *ssa.Function, a []Value) (Value, stubStatus) {
		m := in.mutex(cellOf(a[0]))
		if !in.syncPoint(th, "Mutex.TryLock", nil) {
			return nil, stYield
		}
		if m.writer || m.readers > 0 {
			return tb.F, stDone
		}
		m.writer = true
		in.raceAcquire(m)
		in.raceAcquire(raceReaders{m})
		return tb.T, stDone
	}
	s["(*sync.Mutex).Unlock"] = func(in *Interp, th *Thread, fn *ssa.Function, a []Value) (Value, stubStatus) {
		m := in.mutex(cellOf(a[0]))
		if !m.writer {
			in.goPanic(th, "sync: unlock of unlocked mutex")
			return nil, stPanicked
		}
		m.writer = false
		in.raceRelease(m)
		return nil, stDone
	}
	s["(*sync.RWMutex).Lock"] = s["(*sync.Mutex).Lock"]
	s["(*sync.RWMutex).TryLock"] = s["(*sync.Mutex).TryLock"]
	s["(*sync.RWMutex).Unlock"] = s["(*sync.Mutex).Unlock"]
	s["(*sync.RWMutex).RLock"] = func(in *Interp, th *Thread, fn *ssa.Function, a []Value) (Value, stubStatus) {
		m := in.mutex(cellOf(a[0]))
		if !in.syncPoint(th, "RWMutex.RLock", func() bool { return !m.writer }) {
			return nil, stYield
		}
		m.readers++
		in.raceAcquire(m)
		return nil, stDone
	}
	s["(*sync.RWMutex).RUnlock"] = func(in *Interp, th *Thread, fn *ssa.Function, a []Value) (Value, stubStatus) {
		m := in.mutex(cellOf(a[0]))
		if m.readers <= 0 {
			in.goPanic(th, "sync: RUnlock of unlocked RWMutex")
			return nil, stPanicked
		}
		m.readers--
		in.raceRelease(raceReaders{m})
		return nil, stDone
	}
	s["(*sync.WaitGroup).Add"] = func(in *Interp, th *Thread, fn *ssa.Function, a []Value) (Value, stubStatus) {
		c := cellOf(a[0])
		d := in.concretize(in.intTerm(a[1]), "WaitGroup.Add")
		in.wgs[c] += int(d)
		if in.wgs[c] < 0 {
			in.goPanic(th, "sync: negative WaitGroup counter")
			return nil, stPanicked
		}
		return nil, stDone
	}
	s["(*sync.WaitGroup).Done"] = func(in *Interp, th *Thread, fn *ssa.Function, a []Value) (Value, stubStatus) {
		c := cellOf(a[0])
		if !in.syncPoint(th, "WaitGroup.Done", nil) {
			return nil, stYield
		}
		in.wgs[c]--
		in.raceRelease(c)
		if in.wgs[c] < 0 {
			in.goPanic(th, "sync: negative WaitGroup counter")
			return nil, stPanicked
		}
		return nil, stDone
	}
	s["(*sync.WaitGroup).Wait"] = func(in *Interp, th *Thread, fn *ssa.Function, a []Value) (Value, stubStatus) {
		c := cellOf(a[0])
		if !in.visible(th, th.top(), "WaitGroup.Wait", func() bool { return in.wgs[c] == 0 }) {
			return nil, stYield
		}
		in.raceAcquire(c)
		return nil, stDone
	}
	s["(*sync.Once).Do"] = func(in *Interp, th *Thread, fn *ssa.Function, a []Value) (Value, stubStatus) {
		c := cellOf(a[0])
		if in.onceDone[c] {
			in.raceAcquire(c)
			return nil, stDone
		}
		in.onceDone[c] = true
		in.callSync(th, a[1].(FuncV), nil)
		in.raceRelease(c)
		return nil, stDone
	}
	s["(*sync.Pool).Get"] = func(in *Interp, th *Thread, fn *ssa.Function, a []Value) (Value, stubStatus) {
		c := cellOf(a[0])
		in.raceAcquire(c)
		st := in.pools[c]
		if n := len(st); n > 0 {
			v := st[n-1]
			in.pools[c] = st[:n-1]
			return v, stDone
		}
		// field New func() any
		pt := c.t.Underlying().(*types.Struct)
		for i := 0; i < pt.NumFields(); i++ {
			if pt.Field(i).Name() == "New" {
				nf := c.kids[i].v.(FuncV)
				if nf.IsNil() {
					return IfaceV{}, stDone
				}
				return in.callSync(th, nf, nil), stDone
			}
		}
		return IfaceV{}, stDone
	}
	s["(*sync.Pool).Put"] = func(in *Interp, th *Thread, fn *ssa.Function, a []Value) (Value, stubStatus) {
		c := cellOf(a[0])
		in.raceRelease(c)
		in.pools[c] = append(in.pools[c], a[1])
		return nil, stDone
	}

	// ---- sync.Map (keys must compare to a constant: concrete strings / integers / pointers) ----
	smFind := func(in *Interp, c *Cell, k Value) int {
		for i, e := range in.syncMaps[c] {
			t := in.valuesEqual(e.k, k)
			if !t.IsConst() {
				panic(in.unsupported("sync.Map with a symbolic key comparison"))
			}
			if t.op == OpTrue {
				return i
			}
		}
		return -1
	}
	s["(*sync.Map).Load"] = func(in *Interp, th *Thread, fn *ssa.Function, a []Value) (Value, stubStatus) {
		if !in.syncPoint(th, "sync.Map.Load", nil) {
			return nil, stYield
		}
		c := cellOf(a[0])
		in.raceAcqRel(c)
		if i := smFind(in, c, a[1]); i >= 0 {
			return TupleV{in.syncMaps[c][i].v, in.tb.T}, stDone
		}
		return TupleV{IfaceV{}, in.tb.F}, stDone
	}
	s["(*sync.Map).Store"] = func(in *Interp, th *Thread, fn *ssa.Function, a []Value) (Value, stubStatus) {
		if !in.syncPoint(th, "sync.Map.Store", nil) {
			return nil, stYield
		}
		c := cellOf(a[0])
		in.raceAcqRel(c)
		if i := smFind(in, c, a[1]); i >= 0 {
			in.syncMaps[c][i].v = a[2]
		} else {
			in.syncMaps[c] = append(in.syncMaps[c], syncMapEntry{a[1], a[2]})
		}
		return nil, stDone
	}
	s["(*sync.Map).LoadOrStore"] = func(in *Interp, th *Thread, fn *ssa.Function, a []Value) (Value, stubStatus) {
		if !in.syncPoint(th, "sync.Map.LoadOrStore", nil) {
			return nil, stYield
		}
		c := cellOf(a[0])
		in.raceAcqRel(c)
		if i := smFind(in, c, a[1]); i >= 0 {
			return TupleV{in.syncMaps[c][i].v, in.tb.T}, stDone
		}
		in.syncMaps[c] = append(in.syncMaps[c], syncMapEntry{a[1], a[2]})
		return TupleV{a[2], in.tb.F}, stDone
	}
	s["(*sync.Map).LoadAndDelete"] = func(in *Interp, th *Thread, fn *ssa.Function, a []Value) (Value, stubStatus) {
		if !in.syncPoint(th, "sync.Map.LoadAndDelete", nil) {
			return nil, stYield
		}
		c := cellOf(a[0])
		in.raceAcqRel(c)
		if i := smFind(in, c, a[1]); i >= 0 {
			v := in.syncMaps[c][i].v
			in.syncMaps[c] = append(append([]syncMapEntry(nil), in.syncMaps[c][:i]...), in.syncMaps[c][i+1:]...)
			return TupleV{v, in.tb.T}, stDone
		}
		return TupleV{IfaceV{}, in.tb.F}, stDone
	}
	s["(*sync.Map).Delete"] = func(in *Interp, th *Thread, fn *ssa.Function, a []Value) (Value, stubStatus) {
		if !in.syncPoint(th, "sync.Map.Delete", nil) {
			return nil, stYield
		}
		c := cellOf(a[0])
		in.raceAcqRel(c)
		if i := smFind(in, c, a[1]); i >= 0 {
			in.syncMaps[c] = append(append([]syncMapEntry(nil), in.syncMaps[c][:i]...), in.syncMaps[c][i+1:]...)
		}
		return nil, stDone
	}
	s["(*sync.Map).Range"] = func(in *Interp, th *Thread, fn *ssa.Function, a []Value) (Value, stubStatus) {
		if !in.syncPoint(th, "sync.Map.Range", nil) {
			return nil, stYield
		}
		c := cellOf(a[0])
		in.raceAcqRel(c)
		// a snapshot in insertion order (Range promises no particular order; the callbacks in go-coap only collect)
		snap := append([]syncMapEntry(nil), in.syncMaps[c]...)
		for _, e := range snap {
			r := in.callSync(th, a[1].(FuncV), []Value{e.k, e.v})
			if t, ok := r.(*Term); ok && t.op == OpFalse {
				break
			}
		}
		return nil, stDone
	}

	// ---- sync/atomic.Value ----
	s["(*sync/atomic.Value).Load"] = func(in *Interp, th *Thread, fn *ssa.Function, a []Value) (Value, stubStatus) {
		if !in.syncPoint(th, "atomic.Value.Load", nil) {
			return nil, stYield
		}
		c := cellOf(a[0])
		in.raceAcqRel(c)
		if v, ok := c.kids[0].v.(IfaceV); ok {
			return v, stDone
		}
		return IfaceV{}, stDone
	}
	s["(*sync/atomic.Value).Store"] = func(in *Interp, th *Thread, fn *ssa.Function, a []Value) (Value, stubStatus) {
		if !in.syncPoint(th, "atomic.Value.Store", nil) {
			return nil, stYield
		}
		c := cellOf(a[0])
		in.raceAcqRel(c)
		c.kids[0].v = a[1]
		return nil, stDone
	}
	s["(*sync/atomic.Value).Swap"] = func(in *Interp, th *Thread, fn *ssa.Function, a []Value) (Value, stubStatus) {
		if !in.syncPoint(th, "atomic.Value.Swap", nil) {
			return nil, stYield
		}
		c := cellOf(a[0])
		in.raceAcqRel(c)
		old, _ := c.kids[0].v.(IfaceV)
		c.kids[0].v = a[1]
		return old, stDone
	}
	s["(*sync/atomic.Value).CompareAndSwap"] = func(in *Interp, th *Thread, fn *ssa.Function, a []Value) (Value, stubStatus) {
		if !in.syncPoint(th, "atomic.Value.CompareAndSwap", nil) {
			return nil, stYield
		}
		c := cellOf(a[0])
		in.raceAcqRel(c)
		old, _ := c.kids[0].v.(IfaceV)
		eq := in.valuesEqual(old, a[1])
		if in.branch(eq, "cas") {
			c.kids[0].v = a[2]
			return tb.T, stDone
		}
		return tb.F, stDone
	}

	// ---- time ----
	s["time.Now"] = func(in *Interp, th *Thread, fn *ssa.Function, a []Value) (Value, stubStatus) {
		return in.timeVal(in.now()), stDone
	}
	s["time.Since"] = func(in *Interp, th *Thread, fn *ssa.Function, a []Value) (Value, stubStatus) {
		return tb.Bin(OpSub, in.now(), in.timeNs(a[0])), stDone
	}
	s["time.Until"] = func(in *Interp, th *Thread, fn *ssa.Function, a []Value) (Value, stubStatus) {
		return tb.Bin(OpSub, in.timeNs(a[0]), in.now()), stDone
	}
	s["(time.Time).Add"] = func(in *Interp, th *Thread, fn *ssa.Function, a []Value) (Value, stubStatus) {
		return in.timeVal(tb.Bin(OpAdd, in.timeNs(a[0]), in.intTerm(a[1]))), stDone
	}
	s["(time.Time).Sub"] = func(in *Interp, th *Thread, fn *ssa.Function, a []Value) (Value, stubStatus) {
		return tb.Bin(OpSub, in.timeNs(a[0]), in.timeNs(a[1])), stDone
	}
	s["(time.Time).After"] = func(in *Interp, th *Thread, fn *ssa.Function, a []Value) (Value, stubStatus) {
		return tb.Cmp(OpSlt, in.timeNs(a[1]), in.timeNs(a[0])), stDone
	}
	s["(time.Time).Before"] = func(in *Interp, th *Thread, fn *ssa.Function, a []Value) (Value, stubStatus) {
		return tb.Cmp(OpSlt, in.timeNs(a[0]), in.timeNs(a[1])), stDone
	}
	s["(time.Time).Equal"] = func(in *Interp, th *Thread, fn *ssa.Function, a []Value) (Value, stubStatus) {
		return tb.Eq(in.timeNs(a[0]), in.timeNs(a[1])), stDone
	}
	s["(time.Time).Compare"] = func(in *Interp, th *Thread, fn *ssa.Function, a []Value) (Value, stubStatus) {
		x, y := in.timeNs(a[0]), in.timeNs(a[1])
		return tb.Ite(tb.Cmp(OpSlt, x, y), tb.Const(^uint64(0), 64), tb.Ite(tb.Eq(x, y), tb.Const(0, 64), tb.Const(1, 64))), stDone
	}
	s["(time.Time).IsZero"] = func(in *Interp, th *Thread, fn *ssa.Function, a []Value) (Value, stubStatus) {
		return tb.Eq(in.timeNs(a[0]), tb.Const(0, 64)), stDone
	}
	s["(time.Time).UnixNano"] = func(in *Interp, th *Thread, fn *ssa.Function, a []Value) (Value, stubStatus) {
		return in.timeNs(a[0]), stDone
	}
	s["(time.Time).String"] = func(in *Interp, th *Thread, fn *ssa.Function, a []Value) (Value, stubStatus) {
		return constStr("<time>", tb), stDone
	}
	s["(time.Duration).String"] = func(in *Interp, th *Thread, fn *ssa.Function, a []Value) (Value, stubStatus) {
		return constStr("<duration>", tb), stDone
	}
	s["time.Sleep"] = func(in *Interp, th *Thread, fn *ssa.Function, a []Value) (Value, stubStatus) {
		if !in.visible(th, th.top(), "Sleep", nil) {
			return nil, stYield
		}
		return nil, stDone
	}
	s["time.AfterFunc"] = func(in *Interp, th *Thread, fn *ssa.Function, a []Value) (Value, stubStatus) {
		in.note("model:timers-never-fire")
		return Ptr{}, stDone
	}
	s["(*time.Timer).Stop"] = func(in *Interp, th *Thread, fn *ssa.Function, a []Value) (Value, stubStatus) {
		return tb.T, stDone
	}
	s["time.After"] = func(in *Interp, th *Thread, fn *ssa.Function, a []Value) (Value, stubStatus) {
		in.note("model:timers-never-fire")
		in.nchan++
		return &ChanObj{id: in.nchan, cap: 1, et: fn.Signature.Results().At(0).Type().Underlying().(*types.Chan).Elem()}, stDone
	}

	// ---- context ----
	s["context.WithValue"] = func(in *Interp, th *Thread, fn *ssa.Function, a []Value) (Value, stubStatus) {
		pkg := in.prog.ImportedPackage("context")
		vt := pkg.Type("valueCtx").Type()
		c := in.newCell(vt, in.newObject(vt, "context.WithValue"))
		c.kids[0].v = a[0]
		c.kids[1].v = a[1]
		c.kids[2].v = a[2]
		return IfaceV{t: types.NewPointer(vt), v: Ptr{c: c}}, stDone
	}
	s["context.contextName"] = func(in *Interp, th *Thread, fn *ssa.Function, a []Value) (Value, stubStatus) {
		return constStr("<ctx>", tb), stDone
	}

	// ---- errors / fmt ----
	s["errors.Is"] = func(in *Interp, th *Thread, fn *ssa.Function, a []Value) (Value, stubStatus) {
		err, target := a[0].(IfaceV), a[1].(IfaceV)
		if err.t == nil || target.t == nil {
			return tb.Bool(err.t == nil && target.t == nil), stDone
		}
		is := in.prog.ImportedPackage("errors").Func("is")
		return in.callSync(th, FuncV{fn: is}, []Value{err, target, tb.Bool(types.Comparable(target.t))}), stDone
	}
	s["errors.As"] = func(in *Interp, th *Thread, fn *ssa.Function, a []Value) (Value, stubStatus) {
		err, target := a[0].(IfaceV), a[1].(IfaceV)
		if target.t == nil {
			in.goPanic(th, "errors: target cannot be nil")
			return nil, stPanicked
		}
		pt, ok := target.t.(*types.Pointer)
		if !ok {
			in.goPanic(th, "errors: target must be a non-nil pointer")
			return nil, stPanicked
		}
		tt := pt.Elem()
		for depth := 0; err.t != nil && depth < 16; depth++ {
			match := false
			if it, isI := tt.Underlying().(*types.Interface); isI {
				match = in.implements(err.t, it)
			} else {
				match = types.Identical(err.t, tt)
			}
			if match {
				if _, isI := tt.Underlying().(*types.Interface); isI {
					in.storeCell(target.v.(Ptr).c, err)
				} else {
					in.storeCell(target.v.(Ptr).c, err.v)
				}
				return tb.T, stDone
			}
			ms := in.prog.MethodSets.MethodSet(err.t)
			var unwrap *ssa.Function
			for i := 0; i < ms.Len(); i++ {
				if ms.At(i).Obj().Name() == "Unwrap" {
					unwrap = in.prog.MethodValue(ms.At(i))
				}
			}
			if unwrap == nil || unwrap.Signature.Results().Len() != 1 {
				break
			}
			r := in.callSync(th, FuncV{fn: unwrap}, []Value{err.v})
			nx, ok := r.(IfaceV)
			if !ok {
				break
			}
			err = nx
		}
		return tb.F, stDone
	}
	s["fmt.Errorf"] = func(in *Interp, th *Thread, fn *ssa.Function, a []Value) (Value, stubStatus) {
		format, _ := a[0].(StrV).concrete()
		var wrapped []IfaceV
		if va, ok := a[1].(SliceV); ok {
			argi := 0
			for i := 0; i < len(format); i++ {
				if format[i] != '%' {
					continue
				}
				i++
				for i < len(format) && strings.IndexByte("+-# 0123456789.*[]", format[i]) >= 0 {
					i++
				}
				if i >= len(format) {
					break
				}
				if format[i] == '%' {
					continue
				}
				if format[i] == 'w' && argi < va.len {
					if iv, ok := in.loadCell(va.arr.kids[va.off+argi]).(IfaceV); ok && iv.t != nil {
						wrapped = append(wrapped, iv)
					}
				}
				argi++
			}
		}
		fpkg := in.prog.ImportedPackage("fmt")
		msg := constStr("fmt.Errorf("+format+")", tb)
		if len(wrapped) >= 1 && fpkg != nil && fpkg.Type("wrapError") != nil {
			wt := fpkg.Type("wrapError").Type()
			c := in.newCell(wt, in.newObject(wt, "fmt.Errorf"))
			c.kids[0].v = msg
			c.kids[1].v = wrapped[0]
			return IfaceV{t: types.NewPointer(wt), v: Ptr{c: c}}, stDone
		}
		et := in.prog.ImportedPackage("errors").Type("errorString").Type()
		c := in.newCell(et, in.newObject(et, "fmt.Errorf"))
		c.kids[0].v = msg
		return IfaceV{t: types.NewPointer(et), v: Ptr{c: c}}, stDone
	}

	// ---- strconv / strings ----
	s["strconv.Itoa"] = func(in *Interp, th *Thread, fn *ssa.Function, a []Value) (Value, stubStatus) {
		t := in.intTerm(a[0])
		if t.op != OpConst {
			return constStr("<itoa>", tb), stDone
		}
		return constStr(strconv.FormatInt(sx(t.val, 64), 10), tb), stDone
	}
	s["strconv.FormatInt"] = func(in *Interp, th *Thread, fn *ssa.Function, a []Value) (Value, stubStatus) {
		t, b := in.intTerm(a[0]), in.intTerm(a[1])
		if t.op != OpConst || b.op != OpConst {
			return constStr("<formatint>", tb), stDone
		}
		return constStr(strconv.FormatInt(sx(t.val, 64), int(b.val)), tb), stDone
	}
	s["strconv.FormatUint"] = func(in *Interp, th *Thread, fn *ssa.Function, a []Value) (Value, stubStatus) {
		t, b := in.intTerm(a[0]), in.intTerm(a[1])
		if t.op != OpConst || b.op != OpConst {
			return constStr("<formatuint>", tb), stDone
		}
		return constStr(strconv.FormatUint(t.val, int(b.val)), tb), stDone
	}
	s["strings.Index"] = func(in *Interp, th *Thread, fn *ssa.Function, a []Value) (Value, stubStatus) {
		return in.strIndexOf(a[0].(StrV).b, a[1].(StrV).b), stDone
	}
	s["strings.IndexByte"] = func(in *Interp, th *Thread, fn *ssa.Function, a []Value) (Value, stubStatus) {
		return in.strIndexOf(a[0].(StrV).b, []*Term{in.intTerm(a[1])}), stDone
	}
	s["internal/bytealg.IndexByteString"] = s["strings.IndexByte"]
	s["internal/bytealg.IndexByte"] = func(in *Interp, th *Thread, fn *ssa.Function, a []Value) (Value, stubStatus) {
		return in.strIndexOf(in.sliceBytes(a[0].(SliceV)), []*Term{in.intTerm(a[1])}), stDone
	}
	s["bytes.IndexByte"] = s["internal/bytealg.IndexByte"]
	s["strings.Contains"] = func(in *Interp, th *Thread, fn *ssa.Function, a []Value) (Value, stubStatus) {
		i := in.strIndexOf(a[0].(StrV).b, a[1].(StrV).b)
		return tb.Cmp(OpSle, tb.Const(0, 64), i), stDone
	}
	s["strings.HasPrefix"] = func(in *Interp, th *Thread, fn *ssa.Function, a []Value) (Value, stubStatus) {
		x, p := a[0].(StrV).b, a[1].(StrV).b
		if len(p) > len(x) {
			return tb.F, stDone
		}
		return in.valuesEqual(StrV{x[:len(p)]}, StrV{p}), stDone
	}
	s["(*strings.Builder).String"] = nil
	delete(s, "(*strings.Builder).String")
	s["(*strings.Builder).copyCheck"] = func(in *Interp, th *Thread, fn *ssa.Function, a []Value) (Value, stubStatus) {
		return nil, stDone
	}
	s["(*strings.Builder).String"] = func(in *Interp, th *Thread, fn *ssa.Function, a []Value) (Value, stubStatus) {
		c := cellOf(a[0])
		// field buf []byte
		st := c.t.Underlying().(*types.Struct)
		for i := 0; i < st.NumFields(); i++ {
			if st.Field(i).Name() == "buf" {
				sl := c.kids[i].v.(SliceV)
				return StrV{in.sliceBytes(sl)}, stDone
			}
		}
		panic(in.unsupported("strings.Builder layout"))
	}
	s["encoding/hex.EncodeToString"] = func(in *Interp, th *Thread, fn *ssa.Function, a []Value) (Value, stubStatus) {
		bs := in.sliceBytes(a[0].(SliceV))
		const hexd = "0123456789abcdef"
		var out []*Term
		for _, b := range bs {
			if b.op != OpConst {
				out = append(out, tb.Const('?', 8), tb.Const('?', 8))
				continue
			}
			out = append(out, tb.Const(uint64(hexd[b.val>>4]), 8), tb.Const(uint64(hexd[b.val&15]), 8))
		}
		return StrV{out}, stDone
	}

	// ---- hash/crc64 ----
	s["hash/crc64.MakeTable"] = func(in *Interp, th *Thread, fn *ssa.Function, a []Value) (Value, stubStatus) {
		at := fn.Signature.Results().At(0).Type().(*types.Pointer).Elem()
		obj := in.newObject(at, "crc64 table")
		c := &Cell{obj: obj, t: at, agg: true} // opaque table: never indexed by interpreted code
		poly := in.intTerm(a[0])
		c.v = poly
		return Ptr{c: c}, stDone
	}
	s["hash/crc64.Checksum"] = func(in *Interp, th *Thread, fn *ssa.Function, a []Value) (Value, stubStatus) {
		return in.crc64Of(in.sliceBytes(a[0].(SliceV)), a[1]), stDone
	}

	// ---- crypto/rand, math/rand ----
	s["crypto/rand.Read"] = func(in *Interp, th *Thread, fn *ssa.Function, a []Value) (Value, stubStatus) {
		sl := a[0].(SliceV)
		for i := 0; i < sl.len; i++ {
			sl.arr.kids[sl.off+i].v = in.freshInput("rand", 8)
		}
		return TupleV{tb.Const(uint64(sl.len), 64), IfaceV{}}, stDone
	}

	// ---- runtime ----
	s["runtime.Gosched"] = func(in *Interp, th *Thread, fn *ssa.Function, a []Value) (Value, stubStatus) {
		if !in.visible(th, th.top(), "Gosched", nil) {
			return nil, stYield
		}
		return nil, stDone
	}
	s["runtime.KeepAlive"] = func(in *Interp, th *Thread, fn *ssa.Function, a []Value) (Value, stubStatus) {
		return nil, stDone
	}
	s["internal/race.Enabled"] = nil
	delete(s, "internal/race.Enabled")
	for _, n := range []string{"Acquire", "Release", "ReleaseMerge", "Disable", "Enable", "Read", "Write", "ReadRange", "WriteRange", "Errors"} {
		s["internal/race."+n] = func(in *Interp, th *Thread, fn *ssa.Function, a []Value) (Value, stubStatus) {
			return nil, stDone
		}
	}
	s["unique.Make"] = nil
	delete(s, "unique.Make")
}

func (in *Interp) sliceBytes(sl SliceV) []*Term {
	out := make([]*Term, sl.len)
	for i := 0; i < sl.len; i++ {
		out[i] = sl.arr.kids[sl.off+i].v.(*Term)
	}
	return out
}

// strIndexOf returns the first index of sep in s, forking on symbolic bytes.
func (in *Interp) strIndexOf(s, sep []*Term) *Term {
	n, m := len(s), len(sep)
	if m == 0 {
		return in.tb.Const(0, 64)
	}
	for i := 0; i+m <= n; i++ {
		c := in.valuesEqual(StrV{s[i : i+m]}, StrV{sep})
		if in.branch(c, "index") {
			return in.tb.Const(uint64(i), 64)
		}
	}
	return in.tb.Const(^uint64(0), 64)
}

var crcISO = crc64.MakeTable(crc64.ISO)

func (in *Interp) crc64Of(bs []*Term, tab Value) *Term {
	poly := uint64(crc64.ISO)
	if p, ok := tab.(Ptr); ok && p.c != nil {
		if t, ok := p.c.v.(*Term); ok && t.op == OpConst {
			poly = t.val
		}
	}
	conc := make([]byte, len(bs))
	all := true
	for i, b := range bs {
		if b.op != OpConst {
			all = false
			break
		}
		conc[i] = byte(b.val)
	}
	if all {
		t := crcISO
		if poly != crc64.ISO {
			t = crc64.MakeTable(poly)
		}
		return in.tb.Const(crc64.Checksum(conc, t), 64)
	}
	in.note("model:crc64-uninterpreted")
	if len(bs) > 16 {
		panic(in.unsupported("crc64 over more than 16 symbolic bytes"))
	}
	return in.tb.UF(fmt.Sprintf("crc64_%d", len(bs)), 64, bs...)
}

// ---- sync/atomic intrinsics (bodiless functions) ----

func stubAtomicIntrinsic(in *Interp, th *Thread, fn *ssa.Function, a []Value) (Value, stubStatus) {
	name := fn.Name()
	if !in.syncPoint(th, "atomic."+name, nil) {
		return nil, stYield
	}
	p := a[0].(Ptr)
	if p.IsNil() {
		in.goPanic(th, "nil pointer in atomic operation")
		return nil, stPanicked
	}
	f := th.top()
	if in.race != nil {
		in.raceAcqRel(p.c)
		in.race.quiet++
		defer func() { in.race.quiet-- }()
	}
	switch {
	case strings.HasPrefix(name, "Load"):
		return in.loadPtr(p, f), stDone
	case strings.HasPrefix(name, "Store"):
		in.storePtr(p, a[1], f)
		return nil, stDone
	case strings.HasPrefix(name, "Swap"):
		old := in.loadPtr(p, f)
		in.storePtr(p, a[1], f)
		return old, stDone
	case strings.HasPrefix(name, "Add"):
		nv := in.tb.Bin(OpAdd, in.loadPtr(p, f).(*Term), in.intTerm(a[1]))
		in.storePtr(p, nv, f)
		return nv, stDone
	case strings.HasPrefix(name, "And"):
		old := in.loadPtr(p, f).(*Term)
		in.storePtr(p, in.tb.Bin(OpAnd, old, in.intTerm(a[1])), f)
		return old, stDone
	case strings.HasPrefix(name, "Or"):
		old := in.loadPtr(p, f).(*Term)
		in.storePtr(p, in.tb.Bin(OpOr, old, in.intTerm(a[1])), f)
		return old, stDone
	case strings.HasPrefix(name, "CompareAndSwap"):
		old := in.loadPtr(p, f)
		if in.branch(in.valuesEqual(old, a[1]), "cas") {
			in.storePtr(p, a[2], f)
			return in.tb.T, stDone
		}
		return in.tb.F, stDone
	}
	panic(in.unsupported("atomic intrinsic " + name))
}

// hostArgs converts concrete interpreter values to host values for fmt; ok=false if anything is symbolic/opaque.
func (in *Interp) hostArgs(v Value) ([]interface{}, bool) {
	sl, ok := v.(SliceV)
	if !ok {
		return nil, false
	}
	var out []interface{}
	for i := 0; i < sl.len; i++ {
		iv, ok := in.loadCell(sl.arr.kids[sl.off+i]).(IfaceV)
		if !ok {
			return nil, false
		}
		if iv.t == nil {
			out = append(out, nil)
			continue
		}
		switch x := iv.v.(type) {
		case StrV:
			s, ok := x.concrete()
			if !ok {
				return nil, false
			}
			out = append(out, s)
		case *Term:
			if x.op != OpConst && x.op != OpTrue && x.op != OpFalse {
				return nil, false
			}
			w, signed, _ := typeWidth(iv.t)
			switch {
			case w == 0:
				out = append(out, x.op == OpTrue)
			case signed:
				out = append(out, sx(x.val, w))
			default:
				out = append(out, x.val)
			}
		default:
			return nil, false
		}
	}
	return out, true
}

// stubFmt: formatting and logging are never the subject; Sprint-like functions return an opaque string, except that
// Sprintf/Fprintf on fully concrete strings and integers are evaluated by the host (the router builds its regular
// expressions with them).
func stubFmt(in *Interp, th *Thread, fn *ssa.Function, a []Value) (Value, stubStatus) {
	switch fn.Name() {
	case "Sprintf":
		if f, ok := a[0].(StrV).concrete(); ok {
			if args, ok := in.hostArgs(a[1]); ok {
				return constStr(fmt.Sprintf(f, args...), in.tb), stDone
			}
		}
	case "Fprintf":
		if f, ok := a[1].(StrV).concrete(); ok {
			if args, ok := in.hostArgs(a[2]); ok {
				if w, ok := a[0].(IfaceV); ok && w.t != nil {
					ms := in.prog.MethodSets.MethodSet(w.t)
					for i := 0; i < ms.Len(); i++ {
						if ms.At(i).Obj().Name() == "Write" {
							wr := in.prog.MethodValue(ms.At(i))
							txt := fmt.Sprintf(f, args...)
							arr := in.newArrayCell(types.Typ[types.Uint8], len(txt), "Fprintf")
							for j := 0; j < len(txt); j++ {
								arr.kids[j].v = in.tb.Const(uint64(txt[j]), 8)
							}
							in.callSync(th, FuncV{fn: wr}, []Value{w.v, SliceV{arr: arr, len: len(txt), cap: len(txt)}})
							return TupleV{in.tb.Const(uint64(len(txt)), 64), IfaceV{}}, stDone
						}
					}
				}
			}
		}
	}
	res := fn.Signature.Results()
	switch res.Len() {
	case 0:
		return nil, stDone
	case 1:
		if b, ok := res.At(0).Type().Underlying().(*types.Basic); ok && b.Info()&types.IsString != 0 {
			txt := "<" + fn.Name() + ">"
			if len(a) > 0 {
				if s, ok := a[0].(StrV); ok {
					if cs, ok := s.concrete(); ok {
						txt = "<" + fn.Name() + ":" + cs + ">"
					}
				}
			}
			return constStr(txt, in.tb), stDone
		}
		return in.zero(res.At(0).Type()), stDone
	}
	return in.zero(res), stDone
}
