package main

// Native side: the same harness functions are compiled with real sym* bodies and executed against /repo's working
// tree through `go test -overlay` (nothing is written under /repo). Used for (a) path-witness cross-validation of
// the encoder and (b) replay of counterexamples before a VIOLATION is reported.

import (
	"bufio"
	"encoding/json"
	"fmt"
	"go/ast"
	"go/parser"
	"go/printer"
	"go/token"
	"os"
	"os/exec"
	"path/filepath"
	"sort"
	"strings"
	"time"
)

type nativeCase struct {
	ID      int               `json:"id"`
	Harness string            `json:"harness"`
	Inputs  map[string]uint64 `json:"inputs"`
	Chooses []int             `json:"chooses"`
	Params  map[string]int    `json:"params"`
	Kind    string            `json:"kind"` // witness | violation | known
	Sched   []int             `json:"sched,omitempty"`
	Decisions []int           `json:"decisions,omitempty"`
	Selects   []int           `json:"selects,omitempty"`
}

type nativeResult struct {
	ID       int      `json:"id"`
	Outcome  string   `json:"outcome"` // ok | panic | assume | timeout
	Msg      string   `json:"msg"`
	Failed   []string `json:"failed"`
	Observed []ObsOut `json:"observed"`
}

func symDecls(pkg string, native bool) string {
	if !native {
		return "package " + pkg + `

import "time"

func symU8(name string) uint8
func symU16(name string) uint16
func symU32(name string) uint32
func symU64(name string) uint64
func symI8(name string) int8
func symI16(name string) int16
func symI32(name string) int32
func symI64(name string) int64
func symInt(name string) int
func symUint(name string) uint
func symBool(name string) bool
func symBytes(name string, n int) []byte
func symString(name string, n int) string
func symAssume(c bool)
func symAssert(c bool, label string)
func symCover(label string)
func symChoose(name string, n int) int
func symParam(name string, def int) int
func symConcrete(v int) int
func symObserve(name string, v interface{})
func symLoopBound(n int)
func symSetNow(t time.Time)
func symUnpinNow()
func symYield()
func symIdle()
func symSchedCanonical(on bool)
func symPreemptBudget(n int)
func symWaitUntil(f func() bool)
func symSameObject(a, b []byte) bool
func symKnown(id string, inRegion bool)
func symGhost(on bool)
func symReleased(p interface{}) bool
func symNote(s string)
`
	}
	return "package " + pkg + `

import (
	"fmt"
	"reflect"
	"runtime"
	"time"

	zzclock "github.com/plgd-dev/go-coap/v3/pkg/errors"
)

type zzCase struct {
	ID      int               ` + "`json:\"id\"`" + `
	Harness string            ` + "`json:\"harness\"`" + `
	Inputs  map[string]uint64 ` + "`json:\"inputs\"`" + `
	Chooses []int             ` + "`json:\"chooses\"`" + `
	Params  map[string]int    ` + "`json:\"params\"`" + `
	Sched   []int             ` + "`json:\"sched\"`" + `
	Selects []int             ` + "`json:\"selects\"`" + `
}

type zzObs struct {
	Name string ` + "`json:\"name\"`" + `
	Val  string ` + "`json:\"val\"`" + `
}

type zzAssumeFailed struct{}

var (
	zzCur      *zzCase
	zzSeq      map[string]int
	zzChooseI  int
	zzFailed   []string
	zzObserved []zzObs
)

func zzReset(c *zzCase) {
	var seq []int64
	for k := 0; ; k++ {
		v, ok := c.Inputs[fmt.Sprintf("clk#%d", k)]
		if !ok {
			break
		}
		seq = append(seq, int64(v))
	}
	zzclock.ZZClockSet(seq)
	zzclock.ZZGhostReset(false)
	zzclock.ZZSchedSetSelects(c.Selects)
	zzclock.ZZSchedSet(c.Sched)
	zzCur = c
	zzSeq = map[string]int{}
	zzChooseI = 0
	zzFailed = nil
	zzObserved = nil
}

func zzNext(name string) uint64 {
	k := zzSeq[name]
	zzSeq[name] = k + 1
	full := name
	if k > 0 {
		full = fmt.Sprintf("%s#%d", name, k)
	}
	return zzCur.Inputs[full]
}

func symU8(name string) uint8   { return uint8(zzNext(name)) }
func symU16(name string) uint16 { return uint16(zzNext(name)) }
func symU32(name string) uint32 { return uint32(zzNext(name)) }
func symU64(name string) uint64 { return zzNext(name) }
func symI8(name string) int8    { return int8(zzNext(name)) }
func symI16(name string) int16  { return int16(zzNext(name)) }
func symI32(name string) int32  { return int32(zzNext(name)) }
func symI64(name string) int64  { return int64(zzNext(name)) }
func symInt(name string) int    { return int(zzNext(name)) }
func symUint(name string) uint  { return uint(zzNext(name)) }
func symBool(name string) bool  { return zzNext(name) != 0 }
func symBytes(name string, n int) []byte {
	b := make([]byte, n)
	for i := range b {
		b[i] = byte(zzNext(fmt.Sprintf("%s[%d]", name, i)))
	}
	return b
}
func symString(name string, n int) string { return string(symBytes(name, n)) }
func symAssume(c bool) {
	if !c {
		panic(zzAssumeFailed{})
	}
}
func symAssert(c bool, label string) {
	if !c {
		zzFailed = append(zzFailed, label)
	}
}
func symCover(label string) {}
func symChoose(name string, n int) int {
	if zzChooseI < len(zzCur.Chooses) {
		k := zzCur.Chooses[zzChooseI]
		zzChooseI++
		return k
	}
	return 0
}
func symParam(name string, def int) int {
	if v, ok := zzCur.Params[name]; ok {
		return v
	}
	return def
}
func symConcrete(v int) int { return v }
func symObserve(name string, v interface{}) {
	zzObserved = append(zzObserved, zzObs{name, zzRender(v)})
}
func symLoopBound(n int)     {}
func symSetNow(t time.Time)  { zzclock.ZZClockPin(t) }
func symUnpinNow()           { zzclock.ZZClockUnpin() }
func symYield()              { zzclock.ZZSchedPoint(); runtime.Gosched() }
func symPreemptBudget(n int) {}
func symSchedCanonical(on bool) {}
func symIdle()               { zzclock.ZZSchedPoint(); runtime.Gosched() }
func symWaitUntil(f func() bool) {
	zzclock.ZZSchedPoint()
	for !zzclock.ZZSchedQuiet(f) {
		runtime.Gosched()
	}
}
func symSameObject(a, b []byte) bool {
	if cap(a) == 0 || cap(b) == 0 {
		return false
	}
	return &a[:cap(a)][cap(a)-1] == &b[:cap(b)][cap(b)-1]
}
func symKnown(id string, inRegion bool)  {}
func symGhost(on bool)                   { zzclock.ZZGhostReset(on) }
func symReleased(p interface{}) bool     { return zzclock.ZZGhostIsReleased(p) }
func symNote(s string)                   {}

func zzRender(v interface{}) string {
	if v == nil {
		return "nil"
	}
	rv := reflect.ValueOf(v)
	switch rv.Kind() {
	case reflect.Bool:
		if rv.Bool() {
			return "true"
		}
		return "false"
	case reflect.Int, reflect.Int8, reflect.Int16, reflect.Int32, reflect.Int64:
		return fmt.Sprintf("%d", rv.Int())
	case reflect.Uint, reflect.Uint8, reflect.Uint16, reflect.Uint32, reflect.Uint64, reflect.Uintptr:
		return fmt.Sprintf("%d", rv.Uint())
	case reflect.String:
		return fmt.Sprintf("x%x", rv.String())
	case reflect.Slice:
		if rv.Type().Elem().Kind() == reflect.Uint8 {
			return fmt.Sprintf("x%x", rv.Bytes())
		}
	}
	if _, ok := v.(error); ok {
		return "error"
	}
	return "<" + rv.Type().String() + ">"
}
`
}

func nativeDriver(pkg string, harnesses []string) string {
	var sb strings.Builder
	sb.WriteString("package " + pkg + `

import (
	"encoding/json"
	"fmt"
	"os"
	"runtime"
	"testing"
	"time"

	zzclock "github.com/plgd-dev/go-coap/v3/pkg/errors"
)

var zzHarnesses = map[string]func(){
`)
	for _, h := range harnesses {
		fmt.Fprintf(&sb, "\t%q: %s,\n", h, h)
	}
	sb.WriteString(`}

type zzResult struct {
	ID       int      ` + "`json:\"id\"`" + `
	Outcome  string   ` + "`json:\"outcome\"`" + `
	Msg      string   ` + "`json:\"msg\"`" + `
	Failed   []string ` + "`json:\"failed\"`" + `
	Observed []zzObs  ` + "`json:\"observed\"`" + `
}

func TestZZReplay(t *testing.T) {
	data, err := os.ReadFile(os.Getenv("ZZ_CASES"))
	if err != nil {
		t.Fatal(err)
	}
	var cases []zzCase
	if err := json.Unmarshal(data, &cases); err != nil {
		t.Fatal(err)
	}
	out, err := os.OpenFile(os.Getenv("ZZ_OUT"), os.O_APPEND|os.O_CREATE|os.O_WRONLY, 0o644)
	if err != nil {
		t.Fatal(err)
	}
	defer out.Close()
	start := 0
	fmt.Sscan(os.Getenv("ZZ_START"), &start)
	for i := start; i < len(cases); i++ {
		c := &cases[i]
		res := zzResult{ID: c.ID}
		fmt.Fprintf(os.Stderr, "\nZZCASE-BEGIN %d\n", c.ID)
		done := make(chan struct{})
		go func() {
			defer close(done)
			defer func() {
				if r := recover(); r != nil {
					if _, ok := r.(zzAssumeFailed); ok {
						res.Outcome = "assume"
					} else {
						res.Outcome = "panic"
						res.Msg = fmt.Sprint(r)
					}
				}
			}()
			zzReset(c)
			f := zzHarnesses[c.Harness]
			if f == nil {
				res.Outcome = "noharness"
				return
			}
			f()
			res.Outcome = "ok"
			if zzclock.ZZSchedDiverged() {
				res.Msg = "schedule-diverged " + zzclock.ZZSchedStatus()
			}
			zzclock.ZZSchedSet(nil)
		}()
		timedOut := false
		select {
		case <-done:
		case <-time.After(20 * time.Second):
			res.Outcome = "timeout"
			timedOut = true
			if os.Getenv("ZZ_SCHED_DEBUG") != "" {
				buf := make([]byte, 1<<17)
				n := runtime.Stack(buf, true)
				fmt.Fprintf(os.Stderr, "CASE TIMEOUT %s\n%s\n", zzclock.ZZSchedStatus(), buf[:n])
			}
		}
		if !timedOut {
			res.Failed = append(zzFailed, zzclock.ZZGhostFailed()...)
			res.Observed = zzObserved
		} else {
			// assertions that failed before the case stalled still count (the stall is often their consequence)
			res.Failed = append(append([]string(nil), zzFailed...), zzclock.ZZGhostFailed()...)
		}
		fmt.Fprintf(os.Stderr, "\nZZCASE-END %d\n", c.ID)
		b, _ := json.Marshal(res)
		out.Write(append(b, '\n'))
		if timedOut {
			out.Close()
			os.Exit(0) // the runaway goroutine cannot be stopped; the driver restarts after this case
		}
	}
}
`)
	return sb.String()
}

const clockFile = `package errors

import (
	"fmt"
	"os"
	"runtime"
	"strings"
	"sync"
	"time"
)

// Native counterpart of the engine's clock model: time.Now() calls in the packages rewritten for replay return the
// instants now#0, now#1, ... of the solver's model, in call order.
var (
	zzClockMu  sync.Mutex
	zzClockSeq []int64
	zzClockI   int
	zzClockPin *time.Time
)

func ZZClockSet(seq []int64) {
	zzClockMu.Lock()
	zzClockSeq, zzClockI, zzClockPin = seq, 0, nil
	zzClockMu.Unlock()
}

func ZZClockPin(t time.Time) {
	zzClockMu.Lock()
	zzClockPin = &t
	zzClockMu.Unlock()
}

func ZZClockUnpin() {
	zzClockMu.Lock()
	zzClockPin = nil
	zzClockMu.Unlock()
}

// ---- schedule replay: only the goroutine whose turn it is according to the recorded trace runs ----

var (
	zzSchedMu      sync.Mutex
	zzSchedCond    = sync.NewCond(&zzSchedMu)
	zzSchedTrace   []int
	zzSchedPos     int
	zzSchedRunning = -1
	zzSchedActive  bool
	zzSchedNext    int
	zzSchedIDs     = map[uint64]int{}
	zzSchedDiverge bool
)

func zzGoID() uint64 {
	var buf [64]byte
	n := runtime.Stack(buf[:], false)
	var id uint64
	for _, c := range buf[len("goroutine "):n] {
		if c < '0' || c > '9' {
			break
		}
		id = id*10 + uint64(c-'0')
	}
	return id
}

// ZZSchedSet starts (or, with an empty trace, stops) schedule replay; the caller becomes thread 0.
func ZZSchedSet(trace []int) {
	zzSchedMu.Lock()
	zzSchedEpoch++
	zzSchedTrace, zzSchedPos, zzSchedDiverge = trace, 0, false
	zzSchedActive = len(trace) > 0
	zzSchedIDs = map[uint64]int{zzGoID(): 0}
	zzSchedNext = 1
	zzSchedRunning = 0
	zzSchedCond.Broadcast()
	zzSchedMu.Unlock()
}

func ZZSchedDiverged() bool {
	zzSchedMu.Lock()
	defer zzSchedMu.Unlock()
	return zzSchedDiverge
}

func ZZSchedStatus() string {
	zzSchedMu.Lock()
	defer zzSchedMu.Unlock()
	return fmt.Sprintf("pos=%d/%d running=%d active=%v diverged=%v waiting=%v", zzSchedPos, len(zzSchedTrace), zzSchedRunning, zzSchedActive, zzSchedDiverge, zzSchedWaiting)
}

var zzSchedWaiting = map[int]int{}

// ZZSchedQuiet evaluates f without scheduling points on the calling goroutine (wait predicates).
func ZZSchedQuiet(f func() bool) bool {
	g := zzGoID()
	zzSchedMu.Lock()
	zzSchedQuietG[g]++
	zzSchedMu.Unlock()
	defer func() {
		zzSchedMu.Lock()
		zzSchedQuietG[g]--
		zzSchedMu.Unlock()
	}()
	return f()
}

var zzSchedQuietG = map[uint64]int{}
var zzSchedEpoch int

func ZZSchedPoint() {
	zzSchedMu.Lock()
	defer zzSchedMu.Unlock()
	if !zzSchedActive {
		return
	}
	g := zzGoID()
	if zzSchedQuietG[g] > 0 {
		return
	}
	me, ok := zzSchedIDs[g]
	if !ok {
		return
	}
	if zzSchedRunning == me {
		zzSchedRunning = -1
		zzSchedCond.Broadcast()
	}
	deadline := time.Now().Add(5 * time.Second)
	zzSchedWaiting[me] = zzSchedPos
	defer delete(zzSchedWaiting, me)
	epoch := zzSchedEpoch
	for zzSchedActive {
		if epoch != zzSchedEpoch {
			return // a goroutine left over from an earlier replay case: it runs freely
		}
		if zzSchedPos >= len(zzSchedTrace) {
			zzSchedActive = false // trace exhausted: the recorded path ended here, everything else runs freely
			zzSchedCond.Broadcast()
			return
		}
		if zzSchedTrace[zzSchedPos] == me && zzSchedRunning == -1 {
			zzSchedRunning = me
			zzSchedPos++
			if os.Getenv("ZZ_SCHED_DEBUG") != "" {
				for skip := 1; skip < 6; skip++ {
					_, file, line, ok := runtime.Caller(skip)
					if ok && !strings.HasSuffix(file, "zz_verif_clock.go") {
						fmt.Fprintf(os.Stderr, "POINT %d T%d %s:%d\n", zzSchedPos-1, me, file[strings.LastIndex(file, "/")+1:], line)
						break
					}
				}
			}
			return
		}
		if time.Now().After(deadline) {
			zzSchedActive, zzSchedDiverge = false, true
			zzSchedCond.Broadcast()
			if os.Getenv("ZZ_SCHED_DEBUG") != "" {
				buf := make([]byte, 1<<16)
				n := runtime.Stack(buf, true)
				fmt.Fprintf(os.Stderr, "SCHED DIVERGED me=%d pos=%d running=%d ids=%v\n%s\n", me, zzSchedPos, zzSchedRunning, zzSchedIDs, buf[:n])
			}
			return
		}
		t := time.AfterFunc(200*time.Millisecond, func() { zzSchedMu.Lock(); zzSchedCond.Broadcast(); zzSchedMu.Unlock() })
		zzSchedCond.Wait()
		t.Stop()
	}
}

// ZZSchedSelect returns the case the engine chose at the select that is about to execute (-1: no forcing).
func ZZSchedSelect() int {
	zzSchedMu.Lock()
	defer zzSchedMu.Unlock()
	if !zzSchedActive {
		return -1
	}
	if _, ok := zzSchedIDs[zzGoID()]; !ok {
		return -1
	}
	if zzSelPos < len(zzSelTrace) {
		k := zzSelTrace[zzSelPos]
		zzSelPos++
		return k
	}
	return -1
}

var zzSelTrace []int
var zzSelPos int

func ZZSchedSetSelects(sel []int) {
	zzSchedMu.Lock()
	zzSelTrace, zzSelPos = sel, 0
	zzSchedMu.Unlock()
}

// ZZSchedSend performs ch <- v at a scheduling point. A send that has to wait for its receiver gives up the replay
// token while it waits; an unbuffered send is followed by the hand-off point the engine records for it.
func ZZSchedSend[C ~chan T | ~chan<- T, T any](ch C, v T) {
	ZZSchedPoint()
	c := (chan<- T)(ch)
	select {
	case c <- v:
	default:
		zzSchedMu.Lock()
		if me, ok := zzSchedIDs[zzGoID()]; ok && zzSchedRunning == me {
			zzSchedRunning = -1
			zzSchedCond.Broadcast()
		}
		zzSchedMu.Unlock()
		c <- v
	}
	if cap(c) == 0 {
		ZZSchedPoint()
	}
}

// ZZSchedSendFn is ZZSchedSend with the send itself supplied by the caller (try: non-blocking attempt, block: blocking send)
func ZZSchedSendFn(try func() bool, block func(), unbuffered bool) {
	ZZSchedPoint()
	if !try() {
		zzSchedMu.Lock()
		if me, ok := zzSchedIDs[zzGoID()]; ok && zzSchedRunning == me {
			zzSchedRunning = -1
			zzSchedCond.Broadcast()
		}
		zzSchedMu.Unlock()
		block()
	}
	if unbuffered {
		ZZSchedPoint()
	}
}

// ZZSchedPV is a scheduling point that passes its argument through (used to wrap receivers and channels).
func ZZSchedPV[T any](v T) T {
	ZZSchedPoint()
	return v
}

// ZZSchedGo replaces a go statement: thread ids are assigned in creation order like in the engine.
func ZZSchedGo(f func()) {
	zzSchedMu.Lock()
	active := zzSchedActive
	id := zzSchedNext
	zzSchedNext++
	epoch := zzSchedEpoch
	if _, known := zzSchedIDs[zzGoID()]; !known {
		active = false // started by a goroutine left over from an earlier case
	}
	zzSchedMu.Unlock()
	if !active {
		go f()
		return
	}
	started := make(chan struct{})
	go func() {
		zzSchedMu.Lock()
		zzSchedIDs[zzGoID()] = id
		zzSchedMu.Unlock()
		close(started)
		ZZSchedPoint() // thread start
		defer func() {
			zzSchedMu.Lock()
			if zzSchedRunning == id && epoch == zzSchedEpoch {
				zzSchedRunning = -1
			}
			zzSchedCond.Broadcast()
			zzSchedMu.Unlock()
		}()
		f()
	}()
	<-started
}

// ZZPool is a deterministic stand-in for sync.Pool during replay: Get returns the most recently Put item.
type ZZPool struct {
	New   func() any
	mu    sync.Mutex
	items []any
}

func (p *ZZPool) Get() any {
	p.mu.Lock()
	defer p.mu.Unlock()
	if n := len(p.items); n > 0 {
		v := p.items[n-1]
		p.items = p.items[:n-1]
		return v
	}
	if p.New != nil {
		return p.New()
	}
	return nil
}

func (p *ZZPool) Put(v any) {
	p.mu.Lock()
	p.items = append(p.items, v)
	p.mu.Unlock()
}

// ---- ownership ghost state of pooled messages (C12), same rules as the engine's ----

var (
	zzGhostMu       sync.Mutex
	ZZGhostOn       bool
	zzGhostReleased = map[interface{}]bool{}
	ZZGhostFailures []string
)

func ZZGhostReset(on bool) {
	zzGhostMu.Lock()
	ZZGhostOn, zzGhostReleased, ZZGhostFailures = on, map[interface{}]bool{}, nil
	zzGhostMu.Unlock()
}

func zzGhostFail(label string) {
	for _, f := range ZZGhostFailures {
		if f == label {
			return
		}
	}
	ZZGhostFailures = append(ZZGhostFailures, label)
}

// ZZGhostUse is inserted at the start of every method of pool.Message.
func ZZGhostUse(m interface{}, inPool bool) {
	zzGhostMu.Lock()
	defer zzGhostMu.Unlock()
	if ZZGhostOn && !inPool && zzGhostReleased[m] {
		zzGhostFail("ghost: pooled message used after release")
	}
}

var zzPoolDepth = map[uint64]int{}

func ZZPoolEnter() { zzGhostMu.Lock(); zzPoolDepth[zzGoID()]++; zzGhostMu.Unlock() }
func ZZPoolLeave() { zzGhostMu.Lock(); zzPoolDepth[zzGoID()]--; zzGhostMu.Unlock() }
func ZZInPool() bool {
	zzGhostMu.Lock()
	defer zzGhostMu.Unlock()
	return zzPoolDepth[zzGoID()] > 0
}

func ZZGhostReleaseEnter(m interface{}) {
	zzGhostMu.Lock()
	defer zzGhostMu.Unlock()
	if ZZGhostOn && zzGhostReleased[m] {
		zzGhostFail("ghost: pooled message released twice without being re-acquired")
	}
}

func ZZGhostReleased(m interface{}) {
	zzGhostMu.Lock()
	if ZZGhostOn {
		zzGhostReleased[m] = true
	}
	zzGhostMu.Unlock()
}

func ZZGhostAcquired(m interface{}) {
	zzGhostMu.Lock()
	delete(zzGhostReleased, m)
	zzGhostMu.Unlock()
}

func ZZGhostIsReleased(m interface{}) bool {
	zzGhostMu.Lock()
	defer zzGhostMu.Unlock()
	return zzGhostReleased[m]
}

func ZZGhostFailed() []string {
	zzGhostMu.Lock()
	defer zzGhostMu.Unlock()
	return append([]string(nil), ZZGhostFailures...)
}

func ZZClockNow() time.Time {
	zzClockMu.Lock()
	defer zzClockMu.Unlock()
	if zzClockPin != nil {
		return *zzClockPin
	}
	if zzClockI < len(zzClockSeq) {
		v := zzClockSeq[zzClockI]
		zzClockI++
		return time.Unix(0, v)
	}
	if len(zzClockSeq) > 0 {
		return time.Unix(0, zzClockSeq[len(zzClockSeq)-1])
	}
	return time.Now()
}
`

// clockOverlay rewrites time.Now()/time.Since()/time.Until() in the non-test files of the given package directories so
// that the native replay sees the instants of the solver's model. The rewritten copies live in scratch.
func clockOverlay(repo string, dirs []string, scratch string, replace map[string]string) error {
	for di, dir := range dirs {
		ents, err := os.ReadDir(filepath.Join(repo, dir))
		if err != nil {
			return err
		}
		for _, e := range ents {
			name := e.Name()
			if e.IsDir() || !strings.HasSuffix(name, ".go") || strings.HasSuffix(name, "_test.go") {
				continue
			}
			path := filepath.Join(repo, dir, name)
			fset := token.NewFileSet()
			f, err := parser.ParseFile(fset, path, nil, parser.ParseComments)
			if err != nil {
				return err
			}
			timeName := ""
			for _, im := range f.Imports {
				if im.Path.Value == "\"time\"" {
					timeName = "time"
					if im.Name != nil {
						timeName = im.Name.Name
					}
				}
			}
			if timeName == "" {
				continue
			}
			changed := false
			clockCall := func() ast.Expr {
				return &ast.CallExpr{Fun: &ast.SelectorExpr{X: ast.NewIdent("zzclock"), Sel: ast.NewIdent("ZZClockNow")}}
			}
			ast.Inspect(f, func(n ast.Node) bool {
				call, ok := n.(*ast.CallExpr)
				if !ok {
					return true
				}
				sel, ok := call.Fun.(*ast.SelectorExpr)
				if !ok {
					return true
				}
				id, ok := sel.X.(*ast.Ident)
				if !ok || id.Name != timeName {
					return true
				}
				switch sel.Sel.Name {
				case "Now":
					if len(call.Args) == 0 {
						call.Fun = &ast.SelectorExpr{X: ast.NewIdent("zzclock"), Sel: ast.NewIdent("ZZClockNow")}
						changed = true
					}
				case "Since":
					if len(call.Args) == 1 {
						call.Fun = &ast.SelectorExpr{X: clockCall(), Sel: ast.NewIdent("Sub")}
						changed = true
					}
				case "Until":
					if len(call.Args) == 1 {
						arg := call.Args[0]
						call.Fun = &ast.SelectorExpr{X: &ast.ParenExpr{X: arg}, Sel: ast.NewIdent("Sub")}
						call.Args = []ast.Expr{clockCall()}
						changed = true
					}
				}
				return true
			})
			if !changed {
				continue
			}
			var sb strings.Builder
			if err := printer.Fprint(&sb, fset, f); err != nil {
				return err
			}
			src := sb.String()
			// add the clock import and keep the time import used
			idx := strings.Index(src, "import (")
			if idx >= 0 {
				src = src[:idx+len("import (")] + "\n\tzzclock \"github.com/plgd-dev/go-coap/v3/pkg/errors\"" + src[idx+len("import ("):]
			} else {
				pk := strings.Index(src, "\nimport ")
				src = src[:pk+1] + "import zzclock \"github.com/plgd-dev/go-coap/v3/pkg/errors\"\n" + src[pk+1:]
			}
			src += "\nvar _ " + timeName + ".Duration\n"
			out := filepath.Join(scratch, fmt.Sprintf("clock_%d_%s", di, name))
			if err := os.WriteFile(out, []byte(src), 0o644); err != nil {
				return err
			}
			replace[path] = out
		}
	}
	return nil
}

// harnessFuncs lists the zz* functions without parameters declared in a harness file.
func harnessFuncs(file string) ([]string, error) {
	fset := token.NewFileSet()
	f, err := parser.ParseFile(fset, file, nil, 0)
	if err != nil {
		return nil, err
	}
	var out []string
	for _, d := range f.Decls {
		fd, ok := d.(*ast.FuncDecl)
		if !ok || fd.Recv != nil || !strings.HasPrefix(fd.Name.Name, "zz") {
			continue
		}
		if fd.Type.Params.NumFields() == 0 && (fd.Type.Results == nil || fd.Type.Results.NumFields() == 0) && fd.Type.TypeParams == nil {
			out = append(out, fd.Name.Name)
		}
	}
	sort.Strings(out)
	return out, nil
}

// runNative executes the cases of one package natively and returns the results by case id.
func runNative(repo, verif, pkgDir, pkgName string, harnessFiles []string, rewrite func(scratch string, replace map[string]string) error, depPkgs []string, cases []nativeCase, keepDir string, racePkgs []string) (map[int]nativeResult, string, error) {
	scratch, err := os.MkdirTemp("", "gosym-native-")
	if err != nil {
		return nil, "", err
	}
	defer os.RemoveAll(scratch)
	replace := map[string]string{}
	var allFuncs []string
	for _, hf := range harnessFiles {
		src := filepath.Join(verif, "harness", hf)
		fns, err := harnessFuncs(src)
		if err != nil {
			return nil, "", err
		}
		allFuncs = append(allFuncs, fns...)
		replace[filepath.Join(repo, pkgDir, "zz_verif_h_"+filepath.Base(hf))] = src
	}
	write := func(name, content string) (string, error) {
		p := filepath.Join(scratch, name)
		return p, os.WriteFile(p, []byte(content), 0o644)
	}
	symPath, err := write("zz_verif_sym.go", symDecls(pkgName, true))
	if err != nil {
		return nil, "", err
	}
	drvPath, err := write("zz_verif_replay_test.go", nativeDriver(pkgName, allFuncs))
	if err != nil {
		return nil, "", err
	}
	clkSrc := clockFile
	if len(racePkgs) > 0 {
		// under the race detector the replay scheduler must not create happens-before edges of its own
		clkSrc = raceClockFile()
		sp, err := write("zz_verif_spin.go", spinFile)
		if err != nil {
			return nil, "", err
		}
		sa, err := write("zz_verif_spin_amd64.s", spinAsm)
		if err != nil {
			return nil, "", err
		}
		replace[filepath.Join(repo, "pkg/errors", "zz_verif_spin.go")] = sp
		replace[filepath.Join(repo, "pkg/errors", "zz_verif_spin_amd64.s")] = sa
	}
	clkPath, err := write("zz_verif_clock.go", clkSrc)
	if err != nil {
		return nil, "", err
	}
	replace[filepath.Join(repo, "pkg/errors", "zz_verif_clock.go")] = clkPath
	if rewrite != nil {
		if err := rewrite(scratch, replace); err != nil {
			return nil, "", err
		}
	}
	if len(depPkgs) > 0 {
		var sb strings.Builder
		sb.WriteString("package " + pkgName + "\n\nimport (\n\tzzclock \"github.com/plgd-dev/go-coap/v3/pkg/errors\"\n")
		for i, d := range depPkgs {
			fmt.Fprintf(&sb, "\tzzdep%d %q\n", i, d)
		}
		sb.WriteString(")\n\nfunc init() {\n")
		for i := range depPkgs {
			fmt.Fprintf(&sb, "\tzzdep%d.ZZSchedPointFn = zzclock.ZZSchedPoint\n\tzzdep%d.ZZSchedGoFn = zzclock.ZZSchedGo\n\tzzdep%d.ZZSchedSelectFn = zzclock.ZZSchedSelect\n", i, i, i)
		}
		sb.WriteString("}\n")
		dp, err := write("zz_verif_deps.go", sb.String())
		if err != nil {
			return nil, "", err
		}
		replace[filepath.Join(repo, pkgDir, "zz_verif_deps.go")] = dp
	}
	replace[filepath.Join(repo, pkgDir, "zz_verif_sym.go")] = symPath
	replace[filepath.Join(repo, pkgDir, "zz_verif_replay_test.go")] = drvPath
	ov, _ := json.MarshalIndent(map[string]interface{}{"Replace": replace}, "", " ")
	ovPath, err := write("overlay.json", string(ov))
	if err != nil {
		return nil, "", err
	}
	cj, _ := json.Marshal(cases)
	casesPath, err := write("cases.json", string(cj))
	if err != nil {
		return nil, "", err
	}
	outPath := filepath.Join(scratch, "out.jsonl")
	results := map[int]nativeResult{}
	races := map[int][]string{}
	startIdx := 0
	var log strings.Builder
	for attempt := 0; attempt < len(cases)+2 && startIdx < len(cases); attempt++ {
		args := []string{"test", "-vet=off", "-count=1", "-overlay", ovPath, "-run", "^TestZZReplay$", "-timeout", "20m"}
		if len(racePkgs) > 0 {
			args = append(args, "-race", "-v")
		}
		cmd := exec.Command("go", append(args, "./"+pkgDir)...)
		cmd.Dir = repo
		cmd.Env = append(os.Environ(), "GOFLAGS=-mod=mod", "GOPROXY=off", "GORACE=exitcode=0", "ZZ_CASES="+casesPath, "ZZ_OUT="+outPath, fmt.Sprintf("ZZ_START=%d", startIdx))
		done := make(chan struct{})
		var outB []byte
		var runErr error
		go func() { outB, runErr = cmd.CombinedOutput(); close(done) }()
		select {
		case <-done:
		case <-time.After(25 * time.Minute):
			cmd.Process.Kill()
			<-done
		}
		log.Write(outB)
		if len(racePkgs) > 0 {
			for id, ds := range parseRaceReports(string(outB), racePkgs) {
				races[id] = append(races[id], ds...)
			}
		}
		// read results so far
		n := 0
		if f, err := os.Open(outPath); err == nil {
			sc := bufio.NewScanner(f)
			sc.Buffer(make([]byte, 1<<20), 1<<26)
			for sc.Scan() {
				var r nativeResult
				if json.Unmarshal(sc.Bytes(), &r) == nil {
					results[r.ID] = r
					n++
				}
			}
			f.Close()
		}
		if n <= startIdx && runErr != nil {
			// the process died without producing a result for case startIdx (fatal error, os.Exit in library, build failure)
			if startIdx == 0 && n == 0 && strings.Contains(string(outB), "[build failed]") {
				return nil, log.String(), fmt.Errorf("native build failed:\n%s", string(outB))
			}
			results[cases[startIdx].ID] = nativeResult{ID: cases[startIdx].ID, Outcome: "crash", Msg: lastLines(string(outB), 12)}
			f, _ := os.OpenFile(outPath, os.O_APPEND|os.O_CREATE|os.O_WRONLY, 0o644)
			b, _ := json.Marshal(results[cases[startIdx].ID])
			f.Write(append(b, '\n'))
			f.Close()
			n = startIdx + 1
		}
		startIdx = n
		if runErr == nil && n >= len(cases) {
			break
		}
	}
	for id, ds := range races {
		if r, ok := results[id]; ok {
			r.Failed = append(r.Failed, ds...)
			results[id] = r
		}
	}
	if keepDir != "" {
		os.MkdirAll(keepDir, 0o755)
		if ents, err := os.ReadDir(scratch); err == nil {
			for _, e := range ents {
				if e.Name() == "overlay.json" {
					continue
				}
				if b, err := os.ReadFile(filepath.Join(scratch, e.Name())); err == nil {
					os.WriteFile(filepath.Join(keepDir, e.Name()), b, 0o644)
				}
			}
		}
		// overlay with stable paths
		rep2 := map[string]string{}
		for k, v := range replace {
			if strings.HasPrefix(v, scratch) {
				v = filepath.Join(keepDir, filepath.Base(v))
			}
			rep2[k] = v
		}
		ov2, _ := json.MarshalIndent(map[string]interface{}{"Replace": rep2}, "", " ")
		os.WriteFile(filepath.Join(keepDir, "overlay.json"), ov2, 0o644)
		raceFlag := ""
		if len(racePkgs) > 0 {
			raceFlag = " -race -v" // the data race is in the race detector's report (WARNING: DATA RACE) on this forced schedule
		}
		script := fmt.Sprintf("#!/bin/sh\n# replays the recorded counterexample against /repo's working tree; prints the native result (failed = violated assertion labels)\nrm -f %s\ncd %s && GOFLAGS=-mod=mod GOPROXY=off ZZ_CASES=%s ZZ_OUT=%s ZZ_START=0 go test -vet=off -count=1%s -overlay %s -run '^TestZZReplay$' ./%s\ncat %s\n", filepath.Join(keepDir, "replay-out.jsonl"), repo, filepath.Join(keepDir, "cases.json"), filepath.Join(keepDir, "replay-out.jsonl"), raceFlag, filepath.Join(keepDir, "overlay.json"), pkgDir, filepath.Join(keepDir, "replay-out.jsonl"))
		os.WriteFile(filepath.Join(keepDir, "replay.sh"), []byte(script), 0o755)
	}
	return results, log.String(), nil
}

func lastLines(s string, n int) string {
	ls := strings.Split(strings.TrimSpace(s), "\n")
	if len(ls) > n {
		ls = ls[len(ls)-n:]
	}
	return strings.Join(ls, "\n")
}

// ---- race-detector replay (race.go): a scheduler lock the race detector cannot see ----

const spinFile = `package errors

import (
	"runtime"
	"time"
)

// zzXchg atomically exchanges *p and v. It is written in assembly so that the race detector does not take the
// replay scheduler's own lock for a synchronisation of the program under test.
func zzXchg(p *uint32, v uint32) uint32

type zzSpinMutex struct{ w uint32 }

//go:norace
func (m *zzSpinMutex) Lock() {
	for i := 0; zzXchg(&m.w, 1) != 0; i++ {
		if i < 64 {
			runtime.Gosched()
		} else {
			time.Sleep(20 * time.Microsecond)
		}
	}
}

//go:norace
func (m *zzSpinMutex) Unlock() { zzXchg(&m.w, 0) }

type zzSpinCond struct{ mu *zzSpinMutex }

//go:norace
func (c *zzSpinCond) Wait() {
	c.mu.Unlock()
	time.Sleep(50 * time.Microsecond)
	c.mu.Lock()
}

func (c *zzSpinCond) Broadcast() {}
`

const spinAsm = `#include "textflag.h"

// func zzXchg(p *uint32, v uint32) uint32
TEXT ·zzXchg(SB), NOSPLIT, $0-20
	MOVQ	p+0(FP), BX
	MOVL	v+8(FP), AX
	XCHGL	AX, 0(BX)
	MOVL	AX, ret+16(FP)
	RET
`

func raceClockFile() string {
	s := clockFile
	rep := func(old, new string) {
		if !strings.Contains(s, old) {
			panic("raceClockFile: pattern not found: " + old)
		}
		s = strings.Replace(s, old, new, 1)
	}
	rep("zzClockMu  sync.Mutex", "zzClockMu  zzSpinMutex")
	rep("zzSchedMu      sync.Mutex", "zzSchedMu      zzSpinMutex")
	rep("zzSchedCond    = sync.NewCond(&zzSchedMu)", "zzSchedCond    = &zzSpinCond{mu: &zzSchedMu}")
	rep("\tmu    sync.Mutex\n", "\tmu    zzSpinMutex\n")
	rep("zzGhostMu       sync.Mutex", "zzGhostMu       zzSpinMutex")
	s = strings.ReplaceAll(s, "\nfunc ", "\n//go:norace\nfunc ")
	return s + "\nvar _ sync.Mutex\n"
}

// parseRaceReports extracts, per replay case, the race detector's reports whose two conflicting accesses are both
// made by code of the watched packages (not by harness or replay files).
func parseRaceReports(out string, pkgs []string) map[int][]string {
	res := map[int][]string{}
	cur := -1
	lines := strings.Split(out, "\n")
	watched := func(fn, file string) bool {
		base := filepath.Base(file)
		if strings.HasPrefix(base, "zz_") {
			return false
		}
		for _, p := range pkgs {
			if strings.HasPrefix(fn, modulePath+"/"+p+".") {
				return true
			}
		}
		return false
	}
	for i := 0; i < len(lines); i++ {
		l := strings.TrimRight(lines[i], "\r")
		switch {
		case strings.HasPrefix(l, "ZZCASE-BEGIN "):
			fmt.Sscan(strings.TrimPrefix(l, "ZZCASE-BEGIN "), &cur)
		case strings.HasPrefix(l, "ZZCASE-END "):
			cur = -1
		case strings.TrimSpace(l) == "WARNING: DATA RACE":
			// the first two stanzas are the conflicting accesses
			var acc []string
			ok := true
			j := i + 1
			for ; j < len(lines) && !strings.HasPrefix(lines[j], "=================="); j++ {
				h := lines[j]
				if len(acc) < 2 && strings.Contains(h, " at 0x") && strings.HasSuffix(strings.TrimSpace(h), ":") && j+2 < len(lines) {
					// the access is attributed to the first frame outside the runtime (map operations are reported
					// from runtime.mapassign / mapaccess / mapdelete)
					f0 := j + 1
					for f0+3 < len(lines) && (strings.HasPrefix(strings.TrimSpace(lines[f0]), "runtime.") || strings.HasPrefix(strings.TrimSpace(lines[f0]), "internal/runtime/")) && strings.TrimSpace(lines[f0+2]) != "" {
						f0 += 2
					}
					fn := strings.TrimSpace(lines[f0])
					if k := strings.LastIndex(fn, "("); k > 0 {
						fn = fn[:k]
					}
					file := strings.TrimSpace(lines[f0+1])
					if k := strings.Index(file, " "); k > 0 {
						file = file[:k]
					}
					if !watched(fn, file) {
						ok = false
					}
					kind := "read"
					if strings.Contains(strings.ToLower(h), "write") {
						kind = "write"
					}
					if k := strings.LastIndex(file, ":"); k > 0 {
						file = filepath.Base(file[:k]) + file[k:]
					}
					acc = append(acc, kind+" at "+file)
				}
			}
			i = j
			if ok && len(acc) == 2 && cur >= 0 {
				sort.Strings(acc)
				res[cur] = append(res[cur], "data race: "+acc[0]+" and "+acc[1]+" (go test -race)")
			}
		}
	}
	return res
}
