package main

// Hash-consed bit-vector / boolean terms with constant folding, SMT-LIB2 printing and a
// concrete evaluator (used for model caching and for path-witness cross-validation).

import (
	"fmt"
	"sort"
	"strings"
)

type Op uint8

const (
	OpConst Op = iota // bit-vector constant (val, w)
	OpVar             // bit-vector or bool variable (name, w; w==0 => Bool)
	OpTrue
	OpFalse
	OpAdd
	OpSub
	OpMul
	OpUDiv
	OpSDiv
	OpURem
	OpSRem
	OpAnd
	OpOr
	OpXor
	OpNot
	OpNeg
	OpShl
	OpLShr
	OpAShr
	OpExtract // val = hi<<8|lo
	OpZExt
	OpSExt
	OpConcat
	OpIte
	OpEq
	OpUlt
	OpUle
	OpSlt
	OpSle
	OpBAnd
	OpBOr
	OpBNot
	OpUF // uninterpreted function application: name, args, w
)

var opSMT = map[Op]string{
	OpAdd: "bvadd", OpSub: "bvsub", OpMul: "bvmul", OpUDiv: "bvudiv", OpSDiv: "bvsdiv", OpURem: "bvurem",
	OpSRem: "bvsrem", OpAnd: "bvand", OpOr: "bvor", OpXor: "bvxor", OpNot: "bvnot", OpNeg: "bvneg",
	OpShl: "bvshl", OpLShr: "bvlshr", OpAShr: "bvashr", OpConcat: "concat", OpIte: "ite", OpEq: "=",
	OpUlt: "bvult", OpUle: "bvule", OpSlt: "bvslt", OpSle: "bvsle", OpBAnd: "and", OpBOr: "or", OpBNot: "not",
}

type Term struct {
	op   Op
	w    int // bit width; 0 = Bool
	a    []*Term
	val  uint64
	name string
	id   int
}

func (t *Term) IsConst() bool { return t.op == OpConst || t.op == OpTrue || t.op == OpFalse }
func (t *Term) IsBool() bool  { return t.w == 0 }

type termKey struct {
	op         Op
	w          int
	a0, a1, a2 int
	val        uint64
	name       string
}

type TB struct {
	tab   map[termKey]*Term
	terms []*Term
	T, F  *Term
	ufs   map[string]string // name -> declaration
	nvar  int
}

func NewTB() *TB {
	tb := &TB{tab: map[termKey]*Term{}, ufs: map[string]string{}}
	tb.T = tb.mk(OpTrue, 0, nil, 0, "")
	tb.F = tb.mk(OpFalse, 0, nil, 0, "")
	return tb
}

func mask(w int) uint64 {
	if w >= 64 {
		return ^uint64(0)
	}
	return (uint64(1) << uint(w)) - 1
}

func (tb *TB) mk(op Op, w int, a []*Term, val uint64, name string) *Term {
	k := termKey{op: op, w: w, val: val, name: name, a0: -1, a1: -1, a2: -1}
	if len(a) > 3 {
		// n-ary UF: encode arg ids into name
		var sb strings.Builder
		sb.WriteString(name)
		for _, x := range a {
			fmt.Fprintf(&sb, ",%d", x.id)
		}
		k.name = sb.String()
	} else {
		if len(a) > 0 {
			k.a0 = a[0].id
		}
		if len(a) > 1 {
			k.a1 = a[1].id
		}
		if len(a) > 2 {
			k.a2 = a[2].id
		}
	}
	if t, ok := tb.tab[k]; ok {
		return t
	}
	t := &Term{op: op, w: w, a: a, val: val, name: name, id: len(tb.terms)}
	tb.terms = append(tb.terms, t)
	tb.tab[k] = t
	return t
}

func (tb *TB) Const(v uint64, w int) *Term { return tb.mk(OpConst, w, nil, v&mask(w), "") }
func (tb *TB) Bool(b bool) *Term {
	if b {
		return tb.T
	}
	return tb.F
}
func (tb *TB) Var(name string, w int) *Term { return tb.mk(OpVar, w, nil, 0, name) }

func sx(v uint64, w int) int64 {
	if w >= 64 {
		return int64(v)
	}
	sh := uint(64 - w)
	return int64(v<<sh) >> sh
}

func evalBin(op Op, w int, x, y uint64) (uint64, bool) {
	m := mask(w)
	switch op {
	case OpAdd:
		return (x + y) & m, true
	case OpSub:
		return (x - y) & m, true
	case OpMul:
		return (x * y) & m, true
	case OpUDiv:
		if y == 0 {
			return m, true
		}
		return (x / y) & m, true
	case OpURem:
		if y == 0 {
			return x, true
		}
		return (x % y) & m, true
	case OpSDiv:
		sxv, syv := sx(x, w), sx(y, w)
		if syv == 0 {
			if sxv < 0 {
				return 1, true
			}
			return m, true
		}
		if syv == -1 {
			return uint64(-sxv) & m, true
		}
		return uint64(sxv/syv) & m, true
	case OpSRem:
		sxv, syv := sx(x, w), sx(y, w)
		if syv == 0 {
			return x, true
		}
		if syv == -1 {
			return 0, true
		}
		return uint64(sxv%syv) & m, true
	case OpAnd:
		return x & y, true
	case OpOr:
		return x | y, true
	case OpXor:
		return x ^ y, true
	case OpShl:
		if y >= uint64(w) {
			return 0, true
		}
		return (x << y) & m, true
	case OpLShr:
		if y >= uint64(w) {
			return 0, true
		}
		return (x >> y) & m, true
	case OpAShr:
		s := sx(x, w)
		if y >= uint64(w) {
			if s < 0 {
				return m, true
			}
			return 0, true
		}
		return uint64(s>>y) & m, true
	}
	return 0, false
}

func (tb *TB) Bin(op Op, x, y *Term) *Term {
	w := x.w
	if x.w != y.w {
		panic(fmt.Sprintf("width mismatch %d %d op %v", x.w, y.w, op))
	}
	if x.op == OpConst && y.op == OpConst {
		if v, ok := evalBin(op, w, x.val, y.val); ok {
			return tb.Const(v, w)
		}
	}
	// commutative: constant to the right
	switch op {
	case OpAdd, OpMul, OpAnd, OpOr, OpXor:
		if x.op == OpConst {
			x, y = y, x
		}
	}
	if y.op == OpConst {
		c := y.val
		switch op {
		case OpAdd, OpSub, OpOr, OpXor, OpShl, OpLShr, OpAShr:
			if c == 0 {
				return x
			}
			if op == OpOr && c == mask(w) {
				return y
			}
			if (op == OpShl || op == OpLShr) && c >= uint64(w) {
				return tb.Const(0, w)
			}
			// (x + c1) + c2
			if op == OpAdd && x.op == OpAdd && x.a[1].op == OpConst {
				return tb.Bin(OpAdd, x.a[0], tb.Const(x.a[1].val+c, w))
			}
			if op == OpSub {
				return tb.Bin(OpAdd, x, tb.Const(-c, w))
			}
		case OpMul:
			if c == 0 {
				return y
			}
			if c == 1 {
				return x
			}
		case OpAnd:
			if c == 0 {
				return y
			}
			if c == mask(w) {
				return x
			}
			// and of zext with mask covering the source
			if x.op == OpZExt && c&mask(x.a[0].w) == mask(x.a[0].w) {
				return x
			}
			if x.op == OpAnd && x.a[1].op == OpConst {
				return tb.Bin(OpAnd, x.a[0], tb.Const(x.a[1].val&c, w))
			}
		case OpUDiv:
			if c == 1 {
				return x
			}
		}
	}
	if x == y {
		switch op {
		case OpSub, OpXor:
			return tb.Const(0, w)
		case OpAnd, OpOr:
			return x
		}
	}
	return tb.mk(op, w, []*Term{x, y}, 0, "")
}

func (tb *TB) Not(x *Term) *Term {
	if x.op == OpConst {
		return tb.Const(^x.val, x.w)
	}
	if x.op == OpNot {
		return x.a[0]
	}
	return tb.mk(OpNot, x.w, []*Term{x}, 0, "")
}

func (tb *TB) Neg(x *Term) *Term {
	if x.op == OpConst {
		return tb.Const(-x.val, x.w)
	}
	return tb.mk(OpNeg, x.w, []*Term{x}, 0, "")
}

func (tb *TB) Extract(x *Term, hi, lo int) *Term {
	w := hi - lo + 1
	if lo == 0 && w == x.w {
		return x
	}
	if x.op == OpConst {
		return tb.Const(x.val>>uint(lo), w)
	}
	if (x.op == OpZExt || x.op == OpSExt) && lo == 0 {
		iw := x.a[0].w
		if w == iw {
			return x.a[0]
		}
		if w < iw {
			return tb.Extract(x.a[0], hi, 0)
		}
		if x.op == OpZExt {
			return tb.ZExt(x.a[0], w)
		}
		return tb.SExt(x.a[0], w)
	}
	if x.op == OpZExt && lo >= x.a[0].w {
		return tb.Const(0, w)
	}
	if x.op == OpExtract {
		ilo := int(x.val & 0xff)
		return tb.Extract(x.a[0], hi+ilo, lo+ilo)
	}
	return tb.mk(OpExtract, w, []*Term{x}, uint64(hi)<<8|uint64(lo), "")
}

func (tb *TB) ZExt(x *Term, w int) *Term {
	if w == x.w {
		return x
	}
	if w < x.w {
		return tb.Extract(x, w-1, 0)
	}
	if x.op == OpConst {
		return tb.Const(x.val, w)
	}
	if x.op == OpZExt {
		return tb.ZExt(x.a[0], w)
	}
	return tb.mk(OpZExt, w, []*Term{x}, 0, "")
}

func (tb *TB) SExt(x *Term, w int) *Term {
	if w == x.w {
		return x
	}
	if w < x.w {
		return tb.Extract(x, w-1, 0)
	}
	if x.op == OpConst {
		return tb.Const(uint64(sx(x.val, x.w)), w)
	}
	if x.op == OpZExt { // sign bit is zero
		return tb.ZExt(x.a[0], w)
	}
	return tb.mk(OpSExt, w, []*Term{x}, 0, "")
}

func (tb *TB) Ite(c, x, y *Term) *Term {
	if c.op == OpTrue {
		return x
	}
	if c.op == OpFalse {
		return y
	}
	if x == y {
		return x
	}
	if x.w == 0 {
		if x.op == OpTrue && y.op == OpFalse {
			return c
		}
		if x.op == OpFalse && y.op == OpTrue {
			return tb.BNot(c)
		}
		if x.op == OpTrue {
			return tb.BOr(c, y)
		}
		if y.op == OpFalse {
			return tb.BAnd(c, x)
		}
		if x.op == OpFalse {
			return tb.BAnd(tb.BNot(c), y)
		}
		if y.op == OpTrue {
			return tb.BOr(tb.BNot(c), x)
		}
	}
	return tb.mk(OpIte, x.w, []*Term{c, x, y}, 0, "")
}

func (tb *TB) Eq(x, y *Term) *Term {
	if x == y {
		return tb.T
	}
	if x.w != y.w {
		panic(fmt.Sprintf("eq width mismatch %d %d", x.w, y.w))
	}
	if x.IsConst() && y.IsConst() {
		if x.w == 0 {
			return tb.Bool(x.op == y.op)
		}
		return tb.Bool(x.val == y.val)
	}
	if x.w == 0 {
		if y.op == OpTrue {
			return x
		}
		if y.op == OpFalse {
			return tb.BNot(x)
		}
		if x.op == OpTrue {
			return y
		}
		if x.op == OpFalse {
			return tb.BNot(y)
		}
	}
	if x.op == OpConst {
		x, y = y, x
	}
	if y.op == OpConst {
		// zext(a) == c  with c out of range -> false; else a == c'
		if x.op == OpZExt {
			iw := x.a[0].w
			if y.val&^mask(iw) != 0 {
				return tb.F
			}
			return tb.Eq(x.a[0], tb.Const(y.val, iw))
		}
		// ite(c, k1, k2) == k
		if x.op == OpIte && x.a[1].op == OpConst && x.a[2].op == OpConst {
			e1, e2 := x.a[1].val == y.val, x.a[2].val == y.val
			switch {
			case e1 && e2:
				return tb.T
			case e1:
				return x.a[0]
			case e2:
				return tb.BNot(x.a[0])
			default:
				return tb.F
			}
		}
		if x.op == OpAdd && x.a[1].op == OpConst {
			return tb.Eq(x.a[0], tb.Const(y.val-x.a[1].val, x.w))
		}
	}
	if x.id > y.id && y.op != OpConst {
		x, y = y, x
	}
	return tb.mk(OpEq, 0, []*Term{x, y}, 0, "")
}

func (tb *TB) Cmp(op Op, x, y *Term) *Term {
	if x.w != y.w {
		panic("cmp width mismatch")
	}
	if x.op == OpConst && y.op == OpConst {
		switch op {
		case OpUlt:
			return tb.Bool(x.val < y.val)
		case OpUle:
			return tb.Bool(x.val <= y.val)
		case OpSlt:
			return tb.Bool(sx(x.val, x.w) < sx(y.val, y.w))
		case OpSle:
			return tb.Bool(sx(x.val, x.w) <= sx(y.val, y.w))
		}
	}
	if x == y {
		return tb.Bool(op == OpUle || op == OpSle)
	}
	w := x.w
	switch op {
	case OpUlt:
		if y.op == OpConst && y.val == 0 {
			return tb.F
		}
		if x.op == OpZExt && y.op == OpConst && y.val > mask(x.a[0].w) {
			return tb.T
		}
	case OpUle:
		if x.op == OpConst && x.val == 0 {
			return tb.T
		}
		if y.op == OpConst && y.val == mask(w) {
			return tb.T
		}
		if x.op == OpZExt && y.op == OpConst && y.val >= mask(x.a[0].w) {
			return tb.T
		}
	case OpSlt:
		// zext(a) <s 0 is false
		if x.op == OpZExt && y.op == OpConst && y.val == 0 {
			return tb.F
		}
		if x.op == OpZExt && y.op == OpConst && sx(y.val, w) > int64(mask(x.a[0].w)) {
			return tb.T
		}
	case OpSle:
		if y.op == OpZExt && x.op == OpConst && x.val == 0 {
			return tb.T
		}
		if x.op == OpZExt && y.op == OpConst && sx(y.val, w) >= int64(mask(x.a[0].w)) {
			return tb.T
		}
	}
	return tb.mk(op, 0, []*Term{x, y}, 0, "")
}

func (tb *TB) BNot(x *Term) *Term {
	switch x.op {
	case OpTrue:
		return tb.F
	case OpFalse:
		return tb.T
	case OpBNot:
		return x.a[0]
	}
	return tb.mk(OpBNot, 0, []*Term{x}, 0, "")
}

func (tb *TB) BAnd(x, y *Term) *Term {
	if x.op == OpFalse || y.op == OpFalse {
		return tb.F
	}
	if x.op == OpTrue {
		return y
	}
	if y.op == OpTrue {
		return x
	}
	if x == y {
		return x
	}
	if (x.op == OpBNot && x.a[0] == y) || (y.op == OpBNot && y.a[0] == x) {
		return tb.F
	}
	return tb.mk(OpBAnd, 0, []*Term{x, y}, 0, "")
}

func (tb *TB) BOr(x, y *Term) *Term {
	if x.op == OpTrue || y.op == OpTrue {
		return tb.T
	}
	if x.op == OpFalse {
		return y
	}
	if y.op == OpFalse {
		return x
	}
	if x == y {
		return x
	}
	if (x.op == OpBNot && x.a[0] == y) || (y.op == OpBNot && y.a[0] == x) {
		return tb.T
	}
	return tb.mk(OpBOr, 0, []*Term{x, y}, 0, "")
}

func (tb *TB) Implies(x, y *Term) *Term { return tb.BOr(tb.BNot(x), y) }

// UF applies an uninterpreted function (declared on first use).
func (tb *TB) UF(name string, w int, args ...*Term) *Term {
	if _, ok := tb.ufs[name]; !ok {
		var sb strings.Builder
		fmt.Fprintf(&sb, "(declare-fun %s (", smtName(name))
		for _, a := range args {
			sb.WriteString(sortOf(a.w) + " ")
		}
		fmt.Fprintf(&sb, ") %s)", sortOf(w))
		tb.ufs[name] = sb.String()
	}
	return tb.mk(OpUF, w, args, 0, name)
}

func sortOf(w int) string {
	if w == 0 {
		return "Bool"
	}
	return fmt.Sprintf("(_ BitVec %d)", w)
}

func smtName(n string) string {
	ok := true
	for _, c := range n {
		if !(c >= 'a' && c <= 'z' || c >= 'A' && c <= 'Z' || c >= '0' && c <= '9' || c == '_' || c == '.' || c == '#' || c == '[' || c == ']' || c == '-') {
			ok = false
		}
	}
	if ok && n != "" {
		return "|" + n + "|"
	}
	return "|" + strings.NewReplacer("|", "_", "\\", "_").Replace(n) + "|"
}

// smtRef is how a term is referred to inside other definitions.
func (t *Term) smtRef() string {
	switch t.op {
	case OpConst:
		if t.w%4 == 0 {
			return fmt.Sprintf("#x%0*x", t.w/4, t.val)
		}
		return fmt.Sprintf("#b%0*b", t.w, t.val)
	case OpTrue:
		return "true"
	case OpFalse:
		return "false"
	case OpVar:
		return smtName(t.name)
	}
	return fmt.Sprintf("t%d", t.id)
}

// smtDef returns the top-level command that introduces the term (declare-const / define-fun); "" for constants.
func (t *Term) smtDef() string {
	switch t.op {
	case OpConst, OpTrue, OpFalse:
		return ""
	case OpVar:
		return fmt.Sprintf("(declare-const %s %s)", smtName(t.name), sortOf(t.w))
	}
	var body string
	switch t.op {
	case OpExtract:
		body = fmt.Sprintf("((_ extract %d %d) %s)", t.val>>8, t.val&0xff, t.a[0].smtRef())
	case OpZExt:
		body = fmt.Sprintf("((_ zero_extend %d) %s)", t.w-t.a[0].w, t.a[0].smtRef())
	case OpSExt:
		body = fmt.Sprintf("((_ sign_extend %d) %s)", t.w-t.a[0].w, t.a[0].smtRef())
	case OpUF:
		var sb strings.Builder
		sb.WriteString("(" + smtName(t.name))
		for _, a := range t.a {
			sb.WriteString(" " + a.smtRef())
		}
		sb.WriteString(")")
		body = sb.String()
		if len(t.a) == 0 {
			body = smtName(t.name)
		}
	default:
		var sb strings.Builder
		sb.WriteString("(" + opSMT[t.op])
		for _, a := range t.a {
			sb.WriteString(" " + a.smtRef())
		}
		sb.WriteString(")")
		body = sb.String()
	}
	return fmt.Sprintf("(define-fun t%d () %s %s)", t.id, sortOf(t.w), body)
}

// Vars collects the variables a term depends on.
func (tb *TB) Vars(ts ...*Term) []*Term {
	seen := map[int]bool{}
	var out []*Term
	var walk func(t *Term)
	walk = func(t *Term) {
		if seen[t.id] {
			return
		}
		seen[t.id] = true
		if t.op == OpVar {
			out = append(out, t)
		}
		for _, a := range t.a {
			walk(a)
		}
	}
	for _, t := range ts {
		walk(t)
	}
	sort.Slice(out, func(i, j int) bool { return out[i].id < out[j].id })
	return out
}

// Model maps variable names to values (bools as 0/1).
type Model map[string]uint64

// Eval evaluates t under m (unassigned variables are 0). ok=false if t contains an uninterpreted function.
func (tb *TB) Eval(t *Term, m Model, memo map[int]uint64) (uint64, bool) {
	if v, ok := memo[t.id]; ok {
		return v, true
	}
	var r uint64
	switch t.op {
	case OpConst:
		r = t.val
	case OpTrue:
		r = 1
	case OpFalse:
		r = 0
	case OpVar:
		r = m[t.name] & mask64(t.w)
	case OpUF:
		return 0, false
	default:
		var av [3]uint64
		for i, a := range t.a {
			v, ok := tb.Eval(a, m, memo)
			if !ok {
				return 0, false
			}
			av[i] = v
		}
		switch t.op {
		case OpNot:
			r = ^av[0] & mask(t.w)
		case OpNeg:
			r = (-av[0]) & mask(t.w)
		case OpExtract:
			r = (av[0] >> uint(t.val&0xff)) & mask(t.w)
		case OpZExt:
			r = av[0]
		case OpSExt:
			r = uint64(sx(av[0], t.a[0].w)) & mask(t.w)
		case OpConcat:
			r = (av[0]<<uint(t.a[1].w) | av[1]) & mask(t.w)
		case OpIte:
			if av[0] != 0 {
				r = av[1]
			} else {
				r = av[2]
			}
		case OpEq:
			r = b2u(av[0] == av[1])
		case OpUlt:
			r = b2u(av[0] < av[1])
		case OpUle:
			r = b2u(av[0] <= av[1])
		case OpSlt:
			r = b2u(sx(av[0], t.a[0].w) < sx(av[1], t.a[0].w))
		case OpSle:
			r = b2u(sx(av[0], t.a[0].w) <= sx(av[1], t.a[0].w))
		case OpBAnd:
			r = av[0] & av[1]
		case OpBOr:
			r = av[0] | av[1]
		case OpBNot:
			r = av[0] ^ 1
		default:
			v, ok := evalBin(t.op, t.w, av[0], av[1])
			if !ok {
				panic("eval: op")
			}
			r = v
		}
	}
	memo[t.id] = r
	return r, true
}

func mask64(w int) uint64 {
	if w == 0 {
		return 1
	}
	return mask(w)
}

func b2u(b bool) uint64 {
	if b {
		return 1
	}
	return 0
}

func (t *Term) String() string {
	switch t.op {
	case OpConst:
		return fmt.Sprintf("%d:%d", t.val, t.w)
	case OpTrue:
		return "true"
	case OpFalse:
		return "false"
	case OpVar:
		return t.name
	}
	var sb strings.Builder
	if t.op == OpExtract {
		fmt.Fprintf(&sb, "(extract[%d:%d]", t.val>>8, t.val&0xff)
	} else if t.op == OpUF {
		sb.WriteString("(" + t.name)
	} else if s, ok := opSMT[t.op]; ok {
		sb.WriteString("(" + s)
	} else {
		fmt.Fprintf(&sb, "(op%d/%d", t.op, t.w)
	}
	for _, a := range t.a {
		sb.WriteString(" ")
		if sb.Len() > 400 {
			sb.WriteString("…")
			break
		}
		sb.WriteString(a.String())
	}
	sb.WriteString(")")
	return sb.String()
}
