package main

// Opt-in data-race oracle (C17: "registering or removing routes concurrently with dispatch is free of data races").
//
// The engine explores interleavings at the granularity of synchronisation operations; a data race is not an
// interleaving but the absence of an ordering, so it is decided per explored schedule with the happens-before
// relation of the Go memory model: every thread carries a vector clock, every synchronisation object (mutex,
// channel, WaitGroup, Once, Pool, atomic cell, sync.Map) a clock that release operations join into and acquire
// operations join from, `go` copies the parent's clock. Two accesses to the same memory cell (or the same map) by
// different threads, at least one a write, neither ordered before the other, made by code of the watched packages
// (not by harness files), are a race on that schedule. The relation is over-approximated where the model is coarser
// than Go's (one clock per channel): that can only hide a race, never invent one. A race is reported only after `go test -race` on the same forced schedule shows it (native.go).

import (
	"fmt"
	"path/filepath"
	"sort"
	"strings"

	"golang.org/x/tools/go/ssa"
)

type vclock []int

func (a vclock) get(i int) int {
	if i < len(a) {
		return a[i]
	}
	return 0
}

func vcJoin(a, b vclock) vclock {
	n := len(a)
	if len(b) > n {
		n = len(b)
	}
	out := make(vclock, n)
	for i := range out {
		out[i] = a.get(i)
		if v := b.get(i); v > out[i] {
			out[i] = v
		}
	}
	return out
}

// raceReaders keys the clock that RUnlock releases into: a later Lock acquires it, a later RLock does not (readers of
// an RWMutex are not ordered among themselves)
type raceReaders struct{ m *mutexState }

type raceAccess struct {
	tid, clk int
	pos      string
}

type raceShadow struct {
	w *raceAccess
	r map[int]*raceAccess
}

type raceState struct {
	pkgs    map[string]bool
	watched map[*ssa.Function]bool
	cells   map[interface{}]*raceShadow
	sync    map[interface{}]vclock
	quiet   int
}

func (in *Interp) raceReset() {
	if in.race == nil {
		return
	}
	in.race.cells = map[interface{}]*raceShadow{}
	in.race.sync = map[interface{}]vclock{}
	in.race.quiet = 0
}

func (in *Interp) raceEnable(pkgs []string) {
	in.race = &raceState{pkgs: map[string]bool{}, watched: map[*ssa.Function]bool{}}
	for _, p := range pkgs {
		in.race.pkgs[modulePath+"/"+p] = true
	}
	in.raceReset()
}

func (in *Interp) raceThread() *Thread {
	if in.race == nil || in.cur == nil || in.cur.id < 0 {
		return nil
	}
	return in.cur
}

// raceFork gives a new thread its parent's clock.
func (in *Interp) raceFork(child *Thread) {
	if in.race == nil {
		return
	}
	var pv vclock
	if p := in.raceThread(); p != nil {
		pv = p.vc
		defer func() { p.vc = vcTick(p.vc, p.id) }()
	}
	child.vc = vcTick(vcJoin(pv, nil), child.id)
}

func vcTick(a vclock, id int) vclock {
	out := vcJoin(a, make(vclock, id+1))
	out[id]++
	return out
}

func (in *Interp) raceAcquire(key interface{}) {
	if th := in.raceThread(); th != nil {
		th.vc = vcJoin(th.vc, in.race.sync[key])
	}
}

func (in *Interp) raceRelease(key interface{}) {
	if th := in.raceThread(); th != nil {
		in.race.sync[key] = vcJoin(in.race.sync[key], th.vc)
		th.vc = vcTick(th.vc, th.id)
	}
}

func (in *Interp) raceAcqRel(key interface{}) {
	in.raceAcquire(key)
	in.raceRelease(key)
}

func (in *Interp) raceWatchedFrame(f *Frame) bool {
	if f == nil || f.fn == nil {
		return false
	}
	fn := f.fn
	if w, ok := in.race.watched[fn]; ok {
		return w
	}
	w := false
	root := fn
	for root.Parent() != nil {
		root = root.Parent()
	}
	p := root.Pkg
	if p == nil && root.Origin() != nil {
		p = root.Origin().Pkg
	}
	if p != nil && in.race.pkgs[p.Pkg.Path()] {
		file := filepath.Base(in.fset.Position(fn.Pos()).Filename)
		w = !strings.HasPrefix(file, "zz_") && file != ""
	}
	in.race.watched[fn] = w
	return w
}

func (in *Interp) racePos(f *Frame) string {
	if f.block != nil && f.ip < len(f.block.Instrs) {
		for ip := f.ip; ip >= 0; ip-- {
			if p := f.block.Instrs[ip].Pos(); p.IsValid() {
				pos := in.fset.Position(p)
				return fmt.Sprintf("%s:%d", filepath.Base(pos.Filename), pos.Line)
			}
		}
	}
	return f.fn.Name()
}

// raceCell records an access to a memory cell (recursively to the leaves of an aggregate).
func (in *Interp) raceCell(c *Cell, write bool, f *Frame) {
	if in.race == nil || c == nil || in.race.quiet > 0 {
		return
	}
	th := in.raceThread()
	if th == nil || !in.raceWatchedFrame(f) {
		return
	}
	if c.agg {
		for _, k := range c.kids {
			in.raceCell(k, write, f)
		}
		return
	}
	in.raceKey(c, write, th, f)
}

// raceMap records an access to a map as a whole.
func (in *Interp) raceMap(m *MapObj, write bool, f *Frame) {
	if in.race == nil || m == nil || in.race.quiet > 0 {
		return
	}
	th := in.raceThread()
	if th == nil || !in.raceWatchedFrame(f) {
		return
	}
	in.raceKey(m, write, th, f)
}

func (in *Interp) raceKey(key interface{}, write bool, th *Thread, f *Frame) {
	sh := in.race.cells[key]
	if sh == nil {
		sh = &raceShadow{r: map[int]*raceAccess{}}
		in.race.cells[key] = sh
	}
	me := &raceAccess{tid: th.id, clk: th.vc.get(th.id), pos: in.racePos(f)}
	ordered := func(a *raceAccess) bool { return a == nil || a.tid == th.id || a.clk <= th.vc.get(a.tid) }
	if !ordered(sh.w) {
		in.raceReport(sh.w, "write", me, map[bool]string{true: "write", false: "read"}[write])
	}
	if write {
		for _, a := range sh.r {
			if !ordered(a) {
				in.raceReport(a, "read", me, "write")
			}
		}
		sh.w = me
		sh.r = map[int]*raceAccess{}
	} else {
		sh.r[th.id] = me
	}
}

func (in *Interp) raceReport(a *raceAccess, ak string, b *raceAccess, bk string) {
	s := []string{ak + " at " + a.pos, bk + " at " + b.pos}
	sort.Strings(s)
	in.ghostViolation("data race: " + s[0] + " and " + s[1] + " are not ordered by any synchronisation")
}
