package main

import (
	"encoding/json"
	"fmt"
	"os"
	"path/filepath"
	"sort"
	"strings"
	"time"
)

type HarnessRun struct {
	Spec    FuncSpec
	HSpec   HarnessSpec
	Stats   *HarnessStats
	Cfg     Config
	PkgName string
	Params  map[string]int

	// native phase
	WitnessTried    int
	WitnessOK       int
	WitnessMismatch []string
	Confirmed       []confirmedViolation
	Unconfirmed     []string
	KnownSeen       map[string]string // id -> description of the failing case
}

type confirmedViolation struct {
	Label  string
	Path   PathResult
	Native nativeResult
	Replay string
}

type Report struct {
	Spec          *Spec
	Tier          string
	Seed          int64
	Start         time.Time
	Repo, Verif   string
	Runs          []*HarnessRun
	KnownList     []KnownFinding
	NativeErr     string
	NativeSkipped bool
	NativeLog     string
}

type caseRef struct {
	run  *HarnessRun
	path PathResult
	kind string
	// for violations: the label expected to fail, or the outcome
	label string
	model map[string]uint64
}

func violationLabel(p *PathResult) (string, map[string]uint64) {
	for _, a := range p.Asserts {
		if a.Failed {
			return a.Label, a.Model
		}
	}
	return p.Outcome, p.Model
}

func (rep *Report) nativePhase() error {
	// group runs by package
	byPkg := map[string][]*HarnessRun{}
	var order []string
	for _, r := range rep.Runs {
		key := r.HSpec.Pkg
		if len(r.Spec.Race) > 0 {
			key += "\x00race" // replayed in a run of its own, under the race detector
		}
		if _, ok := byPkg[key]; !ok {
			order = append(order, key)
		}
		byPkg[key] = append(byPkg[key], r)
	}
	nWit := 25
	if rep.Tier == "thorough" {
		nWit = 80
	}
	for _, key := range order {
		runs := byPkg[key]
		pkg := strings.TrimSuffix(key, "\x00race")
		var racePkgs []string
		for _, r := range runs {
			for _, p := range r.Spec.Race {
				if !contains(racePkgs, p) {
					racePkgs = append(racePkgs, p)
				}
			}
		}
		var cases []nativeCase
		refs := map[int]*caseRef{}
		files := map[string]bool{}
		var fileList []string
		for _, h := range rep.Spec.Harnesses {
			if h.Pkg == pkg && !files[h.File] {
				files[h.File] = true
				fileList = append(fileList, h.File)
			}
		}
		add := func(r *HarnessRun, p PathResult, kind, label string, model map[string]uint64) {
			id := len(cases)
			cases = append(cases, nativeCase{ID: id, Harness: r.Spec.Name, Inputs: model, Chooses: p.Chooses, Params: r.Params, Kind: kind, Sched: p.Sched, Decisions: p.Decisions, Selects: p.Selects})
			refs[id] = &caseRef{run: r, path: p, kind: kind, label: label, model: model}
		}
		for _, r := range runs {
			r.KnownSeen = map[string]string{}
			if !files[r.HSpec.File] {
				files[r.HSpec.File] = true
				fileList = append(fileList, r.HSpec.File)
			}
			if r.Spec.NoNative {
				continue
			}
			// witnesses: spread over the recorded list
			w := r.Stats.Witnesses
			step := 1
			if len(w) > nWit {
				step = len(w) / nWit
			}
			off := 0
			if step > 1 {
				off = int(rep.Seed % int64(step))
				if off < 0 {
					off = -off
				}
			}
			for i := off; i < len(w) && r.WitnessTried < nWit; i += step {
				if w[i].Threads > 1 && len(rep.Spec.Sched) == 0 {
					continue // schedules cannot be forced natively without the sched rewrite
				}
				add(r, w[i], "witness", "", w[i].Model)
				r.WitnessTried++
			}
			seenLabel := map[string]int{}
			for _, v := range r.Stats.Violations {
				lab, m := violationLabel(&v)
				if os.Getenv("GOSYM_LISTVIOL") != "" {
					fmt.Printf("  [violation] %s label=%q chooses=%v msg=%q\n", r.Spec.Name, lab, v.Chooses, v.Msg)
				}
				if seenLabel[lab] >= 3 || seenLabel[lab] >= 1 && strings.HasPrefix(lab, "data race: ") {
					continue
				}
				seenLabel[lab]++
				add(r, v, "violation", lab, m)
			}
			seenKnown := map[string]int{}
			for _, v := range r.Stats.Known {
				for _, a := range v.Asserts {
					if a.Known != "" && seenKnown[a.Known] < 1 {
						seenKnown[a.Known]++
						add(r, v, "known", a.Label, a.Model)
						refs[len(cases)-1].label = a.Known + "\x00" + a.Label
					}
				}
			}
		}
		if len(cases) == 0 {
			continue
		}
		results, log, err := runNative(rep.Repo, rep.Verif, pkg, runs[0].PkgName, fileList, rep.rewriteFn(pkg), rep.depPkgs(), cases, os.Getenv("GOSYM_KEEP"), racePkgs)
		rep.NativeLog += log
		if err != nil {
			return err
		}
		for id, ref := range refs {
			res, ok := results[id]
			r := ref.run
			switch ref.kind {
			case "witness":
				if !ok {
					r.WitnessMismatch = append(r.WitnessMismatch, fmt.Sprintf("case %d: no native result", id))
					continue
				}
				if msg := compareWitness(&ref.path, &res); msg != "" {
					r.WitnessMismatch = append(r.WitnessMismatch, fmt.Sprintf("%s inputs=%v: %s", r.Spec.Name, ref.model, msg))
				} else {
					r.WitnessOK++
				}
			case "violation":
				confirmed := false
				if ok {
					switch ref.label {
					case "panic":
						confirmed = res.Outcome == "panic" || res.Outcome == "crash"
					case "steplimit", "deadlock":
						confirmed = res.Outcome == "timeout"
					default:
						confirmed = contains(res.Failed, ref.label)
						if strings.HasPrefix(ref.label, "data race: ") {
							// confirmed by the race detector's own report on the forced schedule; the detector reports
							// a pair of racing stacks once per process, so the report may sit with an earlier case
							for _, f := range res.Failed {
								if strings.HasPrefix(f, "data race: ") {
									confirmed = true
								}
							}
							for _, other := range results {
								for _, f := range other.Failed {
									if racePair(f) != "" && racePair(f) == racePair(ref.label) {
										confirmed = true
									}
								}
							}
						}
						if !confirmed && ref.path.Outcome == "panic" && (res.Outcome == "panic" || res.Outcome == "crash") {
							// the path fails an assertion and then panics; natively the panic (in a goroutine of the
							// library: the whole test process dies) took the list of failed assertions with it
							confirmed = true
						}
					}
				}
				if confirmed {
					r.Confirmed = append(r.Confirmed, confirmedViolation{Label: ref.label, Path: ref.path, Native: res})
				} else {
					r.Unconfirmed = append(r.Unconfirmed, fmt.Sprintf("%s label=%q engine=%s msg=%q inputs=%v native=%+v", r.Spec.Name, ref.label, ref.path.Outcome, ref.path.Msg, ref.model, res))
				}
			case "known":
				parts := strings.SplitN(ref.label, "\x00", 2)
				if ok && (contains(res.Failed, parts[1]) || parts[1] == "deadlock" && res.Outcome == "timeout") {
					r.KnownSeen[parts[0]] = fmt.Sprintf("%s label=%q inputs=%v", r.Spec.Name, parts[1], ref.model)
				} else {
					r.Unconfirmed = append(r.Unconfirmed, fmt.Sprintf("known finding %s did not reproduce natively: %s label=%q inputs=%v native=%+v", parts[0], r.Spec.Name, parts[1], ref.model, res))
				}
			}
		}
		// write replay directories for confirmed violations (one native run per harness label to capture files)
		for _, r := range runs {
			seen := map[string]bool{}
			for i := range r.Confirmed {
				cv := &r.Confirmed[i]
				key := cv.Label
				if seen[key] {
					continue
				}
				seen[key] = true
				dir := filepath.Join(rep.Verif, "replays", rep.Spec.Property, fmt.Sprintf("%s-%d", r.Spec.Name, len(seen)))
				os.RemoveAll(dir)
				lab, m := violationLabel(&cv.Path)
				c := []nativeCase{{ID: 0, Harness: r.Spec.Name, Inputs: m, Chooses: cv.Path.Chooses, Params: r.Params, Kind: "violation", Sched: cv.Path.Sched, Selects: cv.Path.Selects}}
				runNative(rep.Repo, rep.Verif, pkg, r.PkgName, fileList, rep.rewriteFn(pkg), rep.depPkgs(), c, dir, racePkgs)
				mj, _ := json.MarshalIndent(map[string]interface{}{"property": rep.Spec.Property, "harness": r.Spec.Name, "tier": rep.Tier, "expected_label": lab, "engine_outcome": cv.Path.Outcome, "engine_msg": cv.Path.Msg, "inputs": m, "decisions": cv.Path.Decisions, "chooses": cv.Path.Chooses, "params": r.Params, "native": cv.Native}, "", " ")
				os.WriteFile(filepath.Join(dir, "model.json"), mj, 0o644)
				cv.Replay = dir
			}
		}
	}
	return nil
}

func (rep *Report) depPkgs() []string {
	var out []string
	for _, d := range rep.Spec.Sched {
		if d != "*" && strings.Contains(strings.SplitN(d, "/", 2)[0], ".") {
			out = append(out, d)
		}
	}
	return out
}

// rewriteFn builds the clock/schedule overlay; typed ASTs are consumed, so the packages are reloaded for each use.
func (rep *Report) rewriteFn(curPkg string) func(string, map[string]string) error {
	if len(rep.Spec.Clock) == 0 && len(rep.Spec.Sched) == 0 && !rep.Spec.Ghost {
		return nil
	}
	return func(scratch string, replace map[string]string) error {
		ld, err := loadProgram(rep.Repo, rep.Verif, rep.Spec, true)
		if err != nil {
			return err
		}
		sched := rep.Spec.Sched
		if contains(sched, "*") {
			// every go-coap package of the program is instrumented
			var all []string
			for d, p := range ld.byDir {
				if strings.HasPrefix(p.PkgPath, modulePath) {
					all = append(all, d)
				}
			}
			for _, d := range sched {
				if d != "*" {
					all = append(all, d)
				}
			}
			sched = all
		}
		return buildRewriteOverlay(ld.byDir, rep.Repo, rep.Spec.Clock, sched, scratch, replace, curPkg, rep.Spec.Ghost)
	}
}

func compareWitness(p *PathResult, n *nativeResult) string {
	if n.Outcome != "ok" {
		return fmt.Sprintf("engine path completes, native outcome %s %s", n.Outcome, n.Msg)
	}
	if strings.HasPrefix(n.Msg, "schedule-diverged") {
		return "native schedule replay diverged from the engine's schedule: " + n.Msg + fmt.Sprintf(" sched=%v", p.Sched)
	}
	if len(n.Failed) > 0 {
		return fmt.Sprintf("native run fails assertions %v that the engine discharged", n.Failed)
	}
	if len(p.Observed) != len(n.Observed) {
		return fmt.Sprintf("observation count differs: engine %d native %d", len(p.Observed), len(n.Observed))
	}
	for i := range p.Observed {
		if p.Observed[i] != n.Observed[i] {
			return fmt.Sprintf("observation %s: engine %s native %s(%s)", p.Observed[i].Name, p.Observed[i].Val, n.Observed[i].Val, n.Observed[i].Name)
		}
	}
	return ""
}

func sortedKeys(m map[string]int) []string {
	var ks []string
	for k := range m {
		ks = append(ks, k)
	}
	sort.Strings(ks)
	return ks
}

// finish writes the evidence file, prints the verdict lines and returns the exit status.
func (rep *Report) finish(out string, partial bool) int {
	status := 0
	var violations, knownLines, problems []string
	tot := struct {
		paths, feasible, sym, obl, dis, cross, wit, witOK int
		instr                                             int64
		sq, sunk, serr                                    int
		st                                                time.Duration
	}{}
	funcs := map[string]int{}
	stubs := map[string]int{}
	notes := map[string]int{}
	var samples []interface{}
	var harnessSummaries []interface{}
	coverMissing := []string{}
	for _, r := range rep.Runs {
		st := r.Stats
		tot.paths += st.Paths
		tot.feasible += st.Feasible
		tot.sym += st.SymPaths
		tot.obl += st.Obligations
		tot.dis += st.Discharged
		tot.cross += st.CrossChecks
		tot.instr += st.Instr
		tot.sq += st.SolverQ
		tot.sunk += st.SolverUnk
		tot.serr += st.SolverErr
		tot.st += st.SolverT
		tot.wit += r.WitnessTried
		tot.witOK += r.WitnessOK
		for k, v := range st.Funcs {
			funcs[k] += v
		}
		for k, v := range st.Stubs {
			stubs[k] += v
		}
		for k, v := range st.Notes {
			notes[k] += v
		}
		expectFail := r.Spec.Expect == "selftest-fail"
		if os.Getenv("GOSYM_LISTVIOL") != "" && !expectFail {
			for _, v := range st.Violations {
				lab, _ := violationLabel(&v)
				fmt.Printf("  [violation] %s label=%q chooses=%v msg=%q\n", r.Spec.Name, lab, v.Chooses, v.Msg)
			}
		}
		if expectFail {
			if len(st.Violations) == 0 {
				problems = append(problems, fmt.Sprintf("%s: vacuity guard did not fail (harness or engine broken)", r.Spec.Name))
			}
		} else {
			for _, cv := range r.Confirmed {
				if cv.Replay != "" {
					violations = append(violations, fmt.Sprintf("VIOLATION property=%s replay=%s harness=%s label=%q", rep.Spec.Property, cv.Replay, r.Spec.Name, cv.Label))
				}
			}
			if rep.NativeSkipped || r.Spec.NoNative {
				for _, v := range st.Violations {
					lab, m := violationLabel(&v)
					problems = append(problems, fmt.Sprintf("%s: counterexample not replayed natively: label=%q outcome=%s msg=%q inputs=%v", r.Spec.Name, lab, v.Outcome, v.Msg, m))
				}
			}
			for _, u := range r.Unconfirmed {
				problems = append(problems, "UNCONFIRMED "+u)
			}
		}
		for id, what := range r.KnownSeen {
			desc := id
			for _, k := range rep.KnownList {
				if k.ID == id {
					desc = id + " " + k.What
				}
			}
			knownLines = append(knownLines, fmt.Sprintf("KNOWN-FINDING: property=%s %s [%s]", rep.Spec.Property, desc, what))
		}
		if rep.NativeSkipped || r.Spec.NoNative {
			seen := map[string]bool{}
			for _, v := range st.Known {
				for _, a := range v.Asserts {
					if a.Known != "" && !seen[a.Known] {
						seen[a.Known] = true
						knownLines = append(knownLines, fmt.Sprintf("KNOWN-FINDING: property=%s %s [%s label=%q inputs=%v]", rep.Spec.Property, a.Known, r.Spec.Name, a.Label, a.Model))
					}
				}
			}
		}
		for _, m := range r.WitnessMismatch {
			problems = append(problems, "ENCODER-MISMATCH "+m)
		}
		for _, p := range st.Inconcl {
			problems = append(problems, fmt.Sprintf("INCONCLUSIVE %s: %s %s notes=%v decisions=%v", r.Spec.Name, p.Outcome, p.Msg, p.Notes, p.Decisions))
			if len(problems) > 40 {
				break
			}
		}
		if st.Truncated {
			problems = append(problems, fmt.Sprintf("%s: exploration truncated at %d paths", r.Spec.Name, st.Paths))
		}
		if st.SolverErr > 0 {
			problems = append(problems, fmt.Sprintf("%s: %d solver errors", r.Spec.Name, st.SolverErr))
		}
		for _, c := range r.Spec.Cover {
			if st.Covers[c] == 0 {
				coverMissing = append(coverMissing, r.Spec.Name+":"+c)
			}
		}
		// samples: a few witnesses written out
		for i, w := range st.Witnesses {
			if i >= 3 {
				break
			}
			samples = append(samples, map[string]interface{}{"harness": r.Spec.Name, "decisions": w.Decisions, "inputs": w.Model, "observed": w.Observed, "asserts_discharged": len(w.Asserts), "steps": w.Steps})
		}
		harnessSummaries = append(harnessSummaries, map[string]interface{}{
			"harness": r.Spec.Name, "about": r.Spec.About, "paths": st.Paths, "feasible_paths": st.Feasible, "outcomes": st.Outcomes,
			"obligations": st.Obligations, "discharged": st.Discharged, "cross_checked_second_solver": st.CrossChecks,
			"cover_labels": st.Covers, "max_decisions": st.MaxDec, "wall_s": st.Wall.Seconds(), "params": r.Params,
			"witnesses_replayed_natively": r.WitnessTried, "witnesses_agree": r.WitnessOK, "expect": r.Spec.Expect,
			"config": map[string]interface{}{"preemption_bound": r.Cfg.Preempt, "symbolic_unwind": r.Cfg.SymUnwind, "step_limit": r.Cfg.StepLimit, "max_enum": r.Cfg.MaxEnum, "solver_timeout_ms": r.Cfg.TimeoutMs, "solver": r.Cfg.Solver, "second_solver": r.Cfg.Solver2},
		})
	}
	for _, c := range coverMissing {
		problems = append(problems, "COVER-UNREACHED "+c)
	}
	if rep.NativeErr != "" {
		problems = append(problems, "native phase failed: "+rep.NativeErr)
	}
	for _, st := range rep.Spec.Stale {
		problems = append(problems, "HARNESS-STALE "+st)
	}

	// functions encoded: split go-coap / other
	type fe struct {
		Name  string `json:"name"`
		Calls int    `json:"calls"`
		Kind  string `json:"kind"`
	}
	var fes []fe
	for k, v := range funcs {
		kind := "stdlib-or-dependency"
		if strings.Contains(k, "plgd-dev/go-coap") {
			kind = "go-coap"
			if strings.Contains(k, ".zz") {
				kind = "harness"
			}
		}
		fes = append(fes, fe{k, v, kind})
	}
	sort.Slice(fes, func(i, j int) bool { return fes[i].Name < fes[j].Name })
	if len(fes) > 400 {
		fes = fes[:400]
	}
	var assumptions []string
	assumptions = append(assumptions, rep.Spec.Assume...)
	for _, k := range sortedKeys(stubs) {
		assumptions = append(assumptions, "environment model used: "+k)
	}
	for _, k := range sortedKeys(notes) {
		if strings.HasPrefix(k, "model:") || strings.HasPrefix(k, "extglobal") {
			assumptions = append(assumptions, k)
		}
	}
	if len(samples) == 0 {
		samples = append(samples, map[string]interface{}{"note": "no completed path"})
	}
	wall := time.Since(rep.Start).Seconds()
	nviol := len(violations)
	ev := map[string]interface{}{
		"property_id": rep.Spec.Property,
		"tier":        rep.Tier,
		"seed":        rep.Seed,
		"level":       "model_checking",
		"wall_s":      wall,
		"violations":  nviol,
		"assumptions": assumptions,
		"coverage": map[string]interface{}{
			"states":                        tot.feasible,
			"transitions":                   tot.instr,
			"traces_validated_against_impl": tot.witOK,
			"samples":                       samples,
			"evaluations":                   tot.paths,
			"distinct_nontrivial":           tot.sym,
			"rule":                          "one evaluation = one symbolic path of a harness (a set of inputs/schedules sharing all branch decisions), enumerated exhaustively within the bounds by depth-first search over solver-checked decisions; non-trivial = feasible path whose path condition contains at least one symbolic constraint; distinct by decision list",
			"obligations":                   tot.obl,
			"discharged":                    tot.dis,
			"obligations_cross_checked":     tot.cross,
			"exhaustive":                    len(problems) == 0,
			"harnesses":                     harnessSummaries,
			"functions_encoded":             fes,
			"bounds":                        rep.Spec.Bounds[rep.Tier],
			"outside_bounds":                rep.Spec.Outside,
			"solver":                        map[string]interface{}{"queries": tot.sq, "solver_seconds": tot.st.Seconds(), "unknown": tot.sunk, "errors": tot.serr, "primary": "z3 (system /usr/bin/z3)", "second": map[bool]string{true: "cvc5 1.0 on every property obligation", false: "none (quick tier)"}[rep.Tier == "thorough"]},
			"known_findings":                knownLines,
			"problems":                      problems,
			"checker_cmd":                   strings.Join(os.Args, " "),
			"encoding_regenerated_from":     rep.Repo + " (go/packages + go/ssa at run time, harness overlay)",
		},
	}
	if !partial {
		os.MkdirAll(filepath.Dir(out), 0o755)
		b, _ := json.MarshalIndent(ev, "", " ")
		if err := os.WriteFile(out, b, 0o644); err != nil {
			fmt.Fprintln(os.Stderr, "evidence:", err)
			return 2
		}
	}
	for _, k := range knownLines {
		fmt.Println(k)
	}
	for i, p := range problems {
		if i >= 12 {
			fmt.Printf("... %d more problem lines (see evidence file)\n", len(problems)-i)
			break
		}
		if len(p) > 600 {
			p = p[:600] + "…"
		}
		fmt.Println(p)
	}
	for _, v := range violations {
		fmt.Println(v)
	}
	fmt.Printf("summary property=%s tier=%s paths=%d feasible=%d obligations=%d discharged=%d witnesses=%d/%d violations=%d problems=%d wall=%.1fs\n", rep.Spec.Property, rep.Tier, tot.paths, tot.feasible, tot.obl, tot.dis, tot.witOK, tot.wit, nviol, len(problems), wall)
	if nviol > 0 {
		status = 1
	} else if len(problems) > 0 {
		status = 3
	}
	return status
}

// racePair reduces a data-race label (engine or race detector) to its pair of accesses.
func racePair(label string) string {
	if !strings.HasPrefix(label, "data race: ") {
		return ""
	}
	s := strings.TrimPrefix(label, "data race: ")
	for _, suf := range []string{" are not ordered", " (go test -race)"} {
		if i := strings.Index(s, suf); i >= 0 {
			s = s[:i]
		}
	}
	return s
}
