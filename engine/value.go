package main

import (
	"fmt"
	"go/types"

	"golang.org/x/tools/go/ssa"
)

// Value is one of: *Term (ints, bools), Ptr, SliceV, StrV, StructV, ArrayV, IfaceV, FuncV, *MapObj, *ChanObj,
// TupleV, FloatV, UnsafeV.
type Value interface{}

// Object is the root of an allocation (used for identity, ghost state and diagnostics).
type Object struct {
	id       int
	typ      types.Type
	site     string
	released bool // ghost flag for pooled messages (C12)
	writes   int
}

// Cell is a node of the heap tree: a leaf holding a scalar value, or an aggregate with children.
type Cell struct {
	v    Value
	kids []*Cell
	agg  bool
	obj  *Object
	t    types.Type
}

type Ptr struct {
	c   *Cell // direct pointer
	arr *Cell // or element of arr at symbolic index idx (absolute index into arr.kids)
	idx *Term
	fn  bool // pointer-to-nothing marker unused
}

func (p Ptr) IsNil() bool { return p.c == nil && p.arr == nil }

type SliceV struct {
	arr           *Cell
	off, len, cap int
}

type StrV struct{ b []*Term }

type StructV struct{ f []Value }
type ArrayV struct{ e []Value }
type TupleV []Value
type FloatV float64

type IfaceV struct {
	t types.Type // nil => nil interface
	v Value
}

type FuncV struct {
	fn   *ssa.Function
	bind []Value
	bi   *ssa.Builtin
}

func (f FuncV) IsNil() bool { return f.fn == nil && f.bi == nil }

type mapEntry struct {
	k Value
	v Value
}

type MapObj struct {
	id      int
	ents    []mapEntry
	kt, vt  types.Type
	version int
}

type ChanObj struct {
	id     int
	cap    int
	buf    []Value
	closed bool
	et     types.Type
	timer  *timerState
}

type timerState struct {
	armed bool
	fired bool
}

// rangeIter is the state of a Range instruction.
type rangeIter struct {
	m    *MapObj
	keys []Value // snapshot of keys (map)
	str  StrV
	pos  int
	isStr bool
}

func (in *Interp) intTerm(v Value) *Term {
	t, ok := v.(*Term)
	if !ok {
		panic(in.unsupported(fmt.Sprintf("expected integer term, got %T", v)))
	}
	return t
}

func typeWidth(t types.Type) (w int, signed bool, ok bool) {
	b, isB := t.Underlying().(*types.Basic)
	if !isB {
		return 0, false, false
	}
	switch b.Kind() {
	case types.Bool, types.UntypedBool:
		return 0, false, true
	case types.Int8:
		return 8, true, true
	case types.Int16:
		return 16, true, true
	case types.Int32, types.UntypedRune:
		return 32, true, true
	case types.Int64, types.Int, types.UntypedInt:
		return 64, true, true
	case types.Uint8:
		return 8, false, true
	case types.Uint16:
		return 16, false, true
	case types.Uint32:
		return 32, false, true
	case types.Uint64, types.Uint, types.Uintptr:
		return 64, false, true
	}
	return 0, false, false
}

// zero returns the zero Value of type t.
func (in *Interp) zero(t types.Type) Value {
	switch u := t.Underlying().(type) {
	case *types.Basic:
		if w, _, ok := typeWidth(u); ok {
			if w == 0 {
				return in.tb.F
			}
			return in.tb.Const(0, w)
		}
		switch u.Kind() {
		case types.String, types.UntypedString:
			return StrV{}
		case types.Float32, types.Float64, types.UntypedFloat:
			return FloatV(0)
		case types.UnsafePointer:
			return Ptr{}
		case types.UntypedNil:
			return nil
		}
		panic(in.unsupported("zero of basic " + u.String()))
	case *types.Pointer:
		return Ptr{}
	case *types.Slice:
		return SliceV{}
	case *types.Map:
		return (*MapObj)(nil)
	case *types.Chan:
		return (*ChanObj)(nil)
	case *types.Signature:
		return FuncV{}
	case *types.Interface:
		return IfaceV{}
	case *types.Struct:
		f := make([]Value, u.NumFields())
		for i := range f {
			f[i] = in.zero(u.Field(i).Type())
		}
		return StructV{f}
	case *types.Array:
		e := make([]Value, int(u.Len()))
		for i := range e {
			e[i] = in.zero(u.Elem())
		}
		return ArrayV{e}
	case *types.Tuple:
		tv := make(TupleV, u.Len())
		for i := range tv {
			tv[i] = in.zero(u.At(i).Type())
		}
		return tv
	}
	panic(in.unsupported("zero of " + t.String()))
}

func isAgg(t types.Type) bool {
	switch t.Underlying().(type) {
	case *types.Struct, *types.Array:
		return true
	}
	return false
}

// newCell allocates a zeroed cell tree of type t belonging to obj.
func (in *Interp) newCell(t types.Type, obj *Object) *Cell {
	c := &Cell{obj: obj, t: t}
	switch u := t.Underlying().(type) {
	case *types.Struct:
		c.agg = true
		c.kids = make([]*Cell, u.NumFields())
		for i := range c.kids {
			c.kids[i] = in.newCell(u.Field(i).Type(), obj)
		}
	case *types.Array:
		c.agg = true
		n := int(u.Len())
		c.kids = make([]*Cell, n)
		for i := range c.kids {
			c.kids[i] = in.newCell(u.Elem(), obj)
		}
	default:
		c.v = in.zero(t)
	}
	return c
}

// newArrayCell allocates a backing array of n elements of type et.
func (in *Interp) newArrayCell(et types.Type, n int, site string) *Cell {
	obj := in.newObject(types.NewSlice(et), site)
	c := &Cell{obj: obj, agg: true, t: types.NewArray(et, int64(n))}
	c.kids = make([]*Cell, n)
	if w, _, ok := typeWidth(et); ok {
		z := in.zero(et)
		_ = w
		for i := range c.kids {
			c.kids[i] = &Cell{obj: obj, t: et, v: z}
		}
	} else {
		for i := range c.kids {
			c.kids[i] = in.newCell(et, obj)
		}
	}
	return c
}

func (in *Interp) newObject(t types.Type, site string) *Object {
	in.nobj++
	return &Object{id: in.nobj, typ: t, site: site}
}

// load reads the value stored in a cell tree.
func (in *Interp) loadCell(c *Cell) Value {
	if !c.agg {
		return c.v
	}
	if _, ok := c.t.Underlying().(*types.Struct); ok {
		f := make([]Value, len(c.kids))
		for i, k := range c.kids {
			f[i] = in.loadCell(k)
		}
		return StructV{f}
	}
	e := make([]Value, len(c.kids))
	for i, k := range c.kids {
		e[i] = in.loadCell(k)
	}
	return ArrayV{e}
}

func (in *Interp) storeCell(c *Cell, v Value) {
	if !c.agg {
		c.v = v
		return
	}
	switch x := v.(type) {
	case StructV:
		for i, k := range c.kids {
			in.storeCell(k, x.f[i])
		}
	case ArrayV:
		for i, k := range c.kids {
			in.storeCell(k, x.e[i])
		}
	default:
		panic(in.unsupported(fmt.Sprintf("store %T into aggregate cell %v", v, c.t)))
	}
}

// ite merges two values of the same shape under condition c (scalars and aggregates of scalars; other kinds
// must be identical).
func (in *Interp) iteValue(c *Term, x, y Value) (Value, bool) {
	switch a := x.(type) {
	case *Term:
		b, ok := y.(*Term)
		if !ok || a.w != b.w {
			return nil, false
		}
		return in.tb.Ite(c, a, b), true
	case StructV:
		b, ok := y.(StructV)
		if !ok || len(a.f) != len(b.f) {
			return nil, false
		}
		f := make([]Value, len(a.f))
		for i := range f {
			v, ok := in.iteValue(c, a.f[i], b.f[i])
			if !ok {
				return nil, false
			}
			f[i] = v
		}
		return StructV{f}, true
	case ArrayV:
		b, ok := y.(ArrayV)
		if !ok || len(a.e) != len(b.e) {
			return nil, false
		}
		e := make([]Value, len(a.e))
		for i := range e {
			v, ok := in.iteValue(c, a.e[i], b.e[i])
			if !ok {
				return nil, false
			}
			e[i] = v
		}
		return ArrayV{e}, true
	case StrV:
		b, ok := y.(StrV)
		if !ok || len(a.b) != len(b.b) {
			return nil, false
		}
		o := make([]*Term, len(a.b))
		for i := range o {
			o[i] = in.tb.Ite(c, a.b[i], b.b[i])
		}
		return StrV{o}, true
	}
	if eq, ok := in.identical(x, y); ok && eq {
		return x, true
	}
	return nil, false
}

// identical reports structural identity for reference-like values (no solver involved).
func (in *Interp) identical(x, y Value) (bool, bool) {
	switch a := x.(type) {
	case Ptr:
		b, ok := y.(Ptr)
		if !ok {
			return false, false
		}
		return a.c == b.c && a.arr == b.arr && a.idx == b.idx, true
	case SliceV:
		b, ok := y.(SliceV)
		return ok && a == b, ok
	case *MapObj:
		b, ok := y.(*MapObj)
		return ok && a == b, ok
	case *ChanObj:
		b, ok := y.(*ChanObj)
		return ok && a == b, ok
	case FloatV:
		b, ok := y.(FloatV)
		return ok && a == b, ok
	case IfaceV:
		b, ok := y.(IfaceV)
		if !ok {
			return false, false
		}
		if a.t == nil || b.t == nil {
			return a.t == nil && b.t == nil, true
		}
		if !types.Identical(a.t, b.t) {
			return false, true
		}
		return in.identical(a.v, b.v)
	case FuncV:
		b, ok := y.(FuncV)
		if !ok {
			return false, false
		}
		return a.fn == b.fn && a.bi == b.bi && len(a.bind) == 0 && len(b.bind) == 0, true
	case nil:
		return y == nil, true
	}
	return false, false
}

func constStr(s string, tb *TB) StrV {
	b := make([]*Term, len(s))
	for i := 0; i < len(s); i++ {
		b[i] = tb.Const(uint64(s[i]), 8)
	}
	return StrV{b}
}

// concreteStr returns the Go string if all bytes are constants.
func (s StrV) concrete() (string, bool) {
	bs := make([]byte, len(s.b))
	for i, t := range s.b {
		if t.op != OpConst {
			return "", false
		}
		bs[i] = byte(t.val)
	}
	return string(bs), true
}

type syncMapEntry struct{ k, v Value }
