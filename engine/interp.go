package main

import (
	"fmt"
	"os"
	"regexp"
	"go/constant"
	"go/token"
	"go/types"
	"sort"
	"strings"

	"golang.org/x/tools/go/ssa"
)

type abortKind int

const (
	abUnsupported abortKind = iota
	abInfeasible            // assume(false) or no such alternative
	abStepLimit
	abUnwind
	abDeadlock
	abPanic // uncaught Go panic in the program under test
	abEnumLimit
	abCut // path ends because an assertion fails on every remaining input (the failure is recorded)
)

func (k abortKind) String() string {
	return [...]string{"unsupported", "infeasible", "steplimit", "unwind", "deadlock", "panic", "enumlimit", "cut"}[k]
}

type abort struct {
	kind abortKind
	msg  string
}

type Decision struct {
	Kind  string
	N     int
	Taken int
}

type deferRec struct {
	fn   Value
	args []Value
	// for invoke-mode defers the receiver is args[0] and fn is already resolved
}

type Frame struct {
	fn        *ssa.Function
	env       map[ssa.Value]Value
	block     *ssa.BasicBlock
	prev      *ssa.BasicBlock
	ip        int
	defers    []*deferRec
	dst       ssa.Value // register in the caller that receives the result (nil for defer/go)
	result    Value
	hasResult bool
	panicking bool // running defers because of a panic
	recovered bool
	isDefer   bool // this frame is a deferred call run by its parent
	symIter   map[ssa.Instruction]int
	onReturn  func(Value)
	marker    bool // callSync boundary
}

type panicInfo struct {
	val Value
	msg string
}

type Thread struct {
	id        int
	frames    []*Frame
	pan       *panicInfo
	done      bool
	atVisible bool
	granted   bool
	enabled   func() bool
	opDesc    string
	name      string
	sendWait  *ChanObj
	unwinding bool // a deferred model call yielded during panic unwinding
	vc        vclock // happens-before clock (race oracle only)
}

type Observation struct {
	Name string
	Val  Value
}

type AssertRec struct {
	Label   string
	Failed  bool
	Model   Model
	Known   string
	Unknown bool
}

type Config struct {
	StepLimit   int
	SymUnwind   int // max symbolic decisions at one instruction within one frame
	MaxEnum     int
	Preempt     int
	MaxPaths    int
	Solver      string
	Solver2     string
	TimeoutMs   int
	Debug       bool
	Trace       bool
	MapOrderAll bool
	Sites       bool
	NoIfConv    bool
	Race        []string
}

type Interp struct {
	prog *ssa.Program
	tb   *TB
	sol  *Solver
	sol2 *Solver
	cfg  Config
	fset *token.FileSet

	// persistent across paths
	satCache  map[*Term]SatResult
	models    []*cachedModel
	enumCache map[[2]int][]uint64
	stubs     map[string]stubFn
	coapPkgs  map[*ssa.Package]bool
	funcsSeen map[*ssa.Function]int
	stubsUsed map[string]int
	totalInst int64
	mathConst map[string]uint64
	pureCache map[string]Value
	qsites    map[string]int
	unsatUnder map[*Term][]*Term

	// per path
	pc        *Term
	pcList    []*Term
	pcSet     map[*Term]bool
	pcChain   map[*Term]bool
	eqConst   map[*Term]*Term
	litLog    []*Term
	dec       []Decision
	prefix    []int
	threads   []*Thread
	cur       *Thread
	globals   map[*ssa.Global]*Cell
	inited    map[*ssa.Package]bool
	nobj      int
	nsteps    int
	inputs    []*Term
	inputSeq  map[string]int
	observes  []Observation
	asserts   []AssertRec
	covers    map[string]bool
	preempts  int
	canonical  bool // symSchedCanonical: among several runnable threads the first (current, then lowest id) runs, no decision
	preemptLim int // -1: cfg.Preempt; otherwise the absolute preemption count allowed (set by symPreemptBudget)
	nowT      *Term
	nowPinned bool
	loopBound int
	ghostOn   bool
	race      *raceState
	known     []knownRegion
	pool      []Value // sync.Pool model: per-pool stacks keyed by pool cell
	pools     map[*Cell][]Value
	syncMaps  map[*Cell][]syncMapEntry // model of sync.Map: insertion-ordered association list
	mutexes   map[*Cell]*mutexState
	errSent   map[string]Value
	onceDone  map[*Cell]bool
	wgs       map[*Cell]int
	pathNotes []string
	nchan     int
	chooses   []int
	params    map[string]int
	knownIDs  map[string]bool
	nObl, nDischarged, nCross int
	loopBoundOverride int
	inPure bool
	schedTrace []int
	selTrace   []int
	hostRegexps map[*Cell]*regexp.Regexp
}

type knownRegion struct {
	id   string
	cond *Term
}

type mutexState struct {
	writer  bool
	readers int
}

type cachedModel struct {
	m    Model
	memo map[int]uint64
}

func (in *Interp) unsupported(msg string) abort {
	where := ""
	if in.cur != nil && len(in.cur.frames) > 0 {
		f := in.cur.frames[len(in.cur.frames)-1]
		where = " in " + f.fn.String()
		if f.block != nil && f.ip < len(f.block.Instrs) {
			where += " @ " + in.fset.Position(f.block.Instrs[f.ip].Pos()).String()
		}
	}
	if in.cur != nil {
		where += " stack:"
		for i := len(in.cur.frames) - 1; i >= 0 && i >= len(in.cur.frames)-6; i-- {
			where += " <- " + in.cur.frames[i].fn.Name()
		}
	}
	return abort{abUnsupported, msg + where}
}

// ---------- path condition, feasibility, decisions ----------

func (in *Interp) resetPath(prefix []int) {
	in.pc = in.tb.T
	in.pcList = in.pcList[:0]
	in.pcSet = map[*Term]bool{}
	in.pcChain = map[*Term]bool{}
	in.eqConst = map[*Term]*Term{}
	in.litLog = nil
	in.dec = in.dec[:0]
	in.prefix = prefix
	in.threads = nil
	in.cur = nil
	in.globals = map[*ssa.Global]*Cell{}
	in.inited = map[*ssa.Package]bool{}
	in.nobj = 0
	in.nsteps = 0
	in.inputs = nil
	in.inputSeq = map[string]int{}
	in.observes = nil
	in.asserts = nil
	in.covers = map[string]bool{}
	in.preempts = 0
	in.preemptLim = -1
	in.canonical = false
	in.nowT = nil
	in.nowPinned = false
	in.loopBound = 0
	in.known = nil
	in.pools = map[*Cell][]Value{}
	in.syncMaps = map[*Cell][]syncMapEntry{}
	in.mutexes = map[*Cell]*mutexState{}
	in.errSent = map[string]Value{}
	in.onceDone = map[*Cell]bool{}
	in.wgs = map[*Cell]int{}
	in.pathNotes = nil
	in.nchan = 0
	in.chooses = nil
	in.loopBoundOverride = 0
	in.ghostOn = false
	in.inPure = false
	in.schedTrace = nil
	in.selTrace = nil
	in.hostRegexps = map[*Cell]*regexp.Regexp{}
	in.raceReset()
}

func (in *Interp) assumeTerm(c *Term) {
	if c.op == OpTrue {
		return
	}
	in.pc = in.tb.BAnd(in.pc, c)
	in.pcList = append(in.pcList, c)
	in.pcChain[in.pc] = true
	in.addLits(c)
}

// addLits records the conjuncts of an assumed condition so that repeated tests of the same condition are decided
// syntactically.
func (in *Interp) addLits(c *Term) {
	if c.op == OpBAnd {
		in.addLits(c.a[0])
		in.addLits(c.a[1])
		return
	}
	if c.op == OpBNot && c.a[0].op == OpBOr {
		in.addLits(in.tb.BNot(c.a[0].a[0]))
		in.addLits(in.tb.BNot(c.a[0].a[1]))
		return
	}
	if !in.pcSet[c] {
		in.pcSet[c] = true
		in.litLog = append(in.litLog, c)
		if c.op == OpEq && c.a[1].op == OpConst && c.a[0].op != OpConst {
			if _, ok := in.eqConst[c.a[0]]; !ok {
				in.eqConst[c.a[0]] = c.a[1]
			}
		}
	}
}

// simp rewrites a boolean condition using the literals and equalities known on this path (shallow, sound).
func (in *Interp) simp(c *Term, depth int) *Term {
	if c.IsConst() {
		return c
	}
	if in.pcSet[c] {
		return in.tb.T
	}
	if depth <= 0 {
		return c
	}
	switch c.op {
	case OpBNot:
		if in.pcSet[c.a[0]] {
			return in.tb.F
		}
		return in.tb.BNot(in.simp(c.a[0], depth-1))
	case OpBAnd:
		return in.tb.BAnd(in.simp(c.a[0], depth-1), in.simp(c.a[1], depth-1))
	case OpBOr:
		return in.tb.BOr(in.simp(c.a[0], depth-1), in.simp(c.a[1], depth-1))
	case OpEq:
		if c.a[0].w == 0 {
			return c
		}
		x, y := in.resolve(c.a[0]), in.resolve(c.a[1])
		if x != c.a[0] || y != c.a[1] {
			return in.tb.Eq(x, y)
		}
	case OpUlt, OpUle, OpSlt, OpSle:
		x, y := in.resolve(c.a[0]), in.resolve(c.a[1])
		if x != c.a[0] || y != c.a[1] {
			return in.tb.Cmp(c.op, x, y)
		}
	}
	if in.pcSet[in.tb.BNot(c)] {
		return in.tb.F
	}
	return c
}

// resolve replaces a term by the constant the path condition pins it to, if any.
func (in *Interp) resolve(t *Term) *Term {
	if t.op == OpConst {
		return t
	}
	if k, ok := in.eqConst[t]; ok {
		return k
	}
	// through zero/sign extension
	if (t.op == OpZExt || t.op == OpSExt) && t.a[0].op != OpConst {
		if k, ok := in.eqConst[t.a[0]]; ok {
			if t.op == OpZExt {
				return in.tb.ZExt(k, t.w)
			}
			return in.tb.SExt(k, t.w)
		}
	}
	if t.op == OpAdd && t.a[1].op == OpConst {
		if r := in.resolve(t.a[0]); r.op == OpConst {
			return in.tb.Bin(OpAdd, r, t.a[1])
		}
	}
	return t
}

func (in *Interp) restoreLits(n int) {
	for _, t := range in.litLog[n:] {
		delete(in.pcSet, t)
		if t.op == OpEq && t.a[1].op == OpConst {
			delete(in.eqConst, t.a[0])
		}
	}
	in.litLog = in.litLog[:n]
}

// check decides satisfiability of pc ∧ c.
func (in *Interp) check(c *Term) SatResult {
	t := in.tb.BAnd(in.pc, c)
	if t.op == OpTrue {
		return Sat
	}
	if t.op == OpFalse {
		return Unsat
	}
	if r, ok := in.satCache[t]; ok {
		return r
	}
	// subsumption: c was refuted under a prefix of the current path condition
	for _, old := range in.unsatUnder[c] {
		if old == in.tb.T || in.pcChain[old] {
			in.satCache[t] = Unsat
			return Unsat
		}
	}
	for _, cm := range in.models {
		if v, ok := in.tb.Eval(t, cm.m, cm.memo); ok && v == 1 {
			in.satCache[t] = Sat
			return Sat
		}
	}
	r, m := in.sol.Check([]*Term{t}, in.inputs)
	if r == Sat && m != nil {
		in.addModel(m)
	}
	in.satCache[t] = r
	if r == Unsat && !in.inPure {
		in.unsatUnder[c] = append(in.unsatUnder[c], in.pc)
	}
	if in.cfg.Sites && in.cur != nil && len(in.cur.frames) > 0 {
		f := in.cur.top()
		pos := "?"
		if f.block != nil && f.ip < len(f.block.Instrs) {
			ins := f.block.Instrs[f.ip]
			p := ins.Pos()
			if iff, ok := ins.(*ssa.If); ok {
				p = iff.Cond.Pos()
			}
			pos = in.fset.Position(p).String()
		}
		in.qsites[fmt.Sprintf("%v %s %s", r, f.fn.Name(), pos)]++
		if d := os.Getenv("GOSYM_QDUMP"); d != "" && strings.Contains(pos, d) && in.qsites["dump"] < 6 {
			in.qsites["dump"]++
			fmt.Fprintf(os.Stderr, "QDUMP %s %v c=%s\n   pc=%v\n", pos, r, c.String(), in.pcList)
		}
	}
	return r
}

func (in *Interp) addModel(m Model) {
	in.models = append(in.models, &cachedModel{m: m, memo: map[int]uint64{}})
	if len(in.models) > 24 {
		in.models = in.models[1:]
	}
}

// modelFor returns a model of pc ∧ c (c must be satisfiable with pc).
func (in *Interp) modelFor(c *Term) (Model, SatResult) {
	t := in.tb.BAnd(in.pc, c)
	if t.op == OpFalse {
		return nil, Unsat
	}
	for _, cm := range in.models {
		if v, ok := in.tb.Eval(t, cm.m, cm.memo); ok && v == 1 {
			return cm.m, Sat
		}
	}
	r, m := in.sol.Check([]*Term{t}, in.inputs)
	if r == Sat && m != nil {
		in.addModel(m)
	}
	in.satCache[t] = r
	return m, r
}

// decide records/replays a decision with n alternatives.
func (in *Interp) decide(kind string, n int) int {
	if n <= 1 {
		return 0
	}
	pos := len(in.dec)
	taken := 0
	if pos < len(in.prefix) {
		taken = in.prefix[pos]
		if taken >= n {
			panic(abort{abInfeasible, "replayed decision out of range"})
		}
	}
	in.dec = append(in.dec, Decision{Kind: kind, N: n, Taken: taken})
	return taken
}

// branch returns the direction taken for a symbolic condition, forking if both are feasible.
func (in *Interp) branch(c *Term, kind string) bool {
	if c.op == OpTrue {
		return true
	}
	if c.op == OpFalse {
		return false
	}
	if sc := in.simp(c, 4); sc.IsConst() {
		return sc.op == OpTrue
	}
	rt := in.check(c)
	rf := in.check(in.tb.BNot(c))
	ft, ff := rt != Unsat, rf != Unsat
	switch {
	case ft && ff:
		if rt == Unknown || rf == Unknown {
			in.note("solver-unknown-at-branch")
		}
		if in.decide(kind, 2) == 0 {
			in.assumeTerm(c)
			return true
		}
		in.assumeTerm(in.tb.BNot(c))
		return false
	case ft:
		if rf == Unsat {
			in.addLits(c) // implied by the path condition
		}
		return true
	case ff:
		if rt == Unsat {
			in.addLits(in.tb.BNot(c))
		}
		return false
	}
	panic(abort{abInfeasible, "path condition unsatisfiable"})
}

func (in *Interp) note(s string) {
	for _, n := range in.pathNotes {
		if n == s {
			return
		}
	}
	in.pathNotes = append(in.pathNotes, s)
}

// concretize forks over the feasible values of t.
func (in *Interp) concretize(t *Term, what string) int64 {
	t = in.resolve(t)
	if t.op == OpConst {
		return sx(t.val, t.w)
	}
	key := [2]int{in.pc.id, t.id}
	vals, ok := in.enumCache[key]
	if !ok {
		excl := in.tb.T
		for {
			m, r := in.modelFor(excl)
			if r == Unsat {
				break
			}
			if r == Unknown || m == nil {
				panic(abort{abUnsupported, "solver unknown while enumerating " + what})
			}
			v, okE := in.tb.Eval(t, m, map[int]uint64{})
			if !okE {
				panic(abort{abUnsupported, "cannot evaluate enumerated term " + what})
			}
			vals = append(vals, v)
			excl = in.tb.BAnd(excl, in.tb.BNot(in.tb.Eq(t, in.tb.Const(v, t.w))))
			if len(vals) > in.cfg.MaxEnum {
				panic(abort{abEnumLimit, fmt.Sprintf("more than %d values for %s", in.cfg.MaxEnum, what)})
			}
		}
		sort.Slice(vals, func(i, j int) bool { return sx(vals[i], t.w) < sx(vals[j], t.w) })
		in.enumCache[key] = vals
	}
	if len(vals) == 0 {
		panic(abort{abInfeasible, "no value"})
	}
	i := in.decide("enum:"+what, len(vals))
	if len(vals) > 1 {
		in.assumeTerm(in.tb.Eq(t, in.tb.Const(vals[i], t.w)))
	}
	return sx(vals[i], t.w)
}

// ---------- threads and frames ----------

func (in *Interp) newThread(name string) *Thread {
	th := &Thread{id: len(in.threads), name: name}
	in.raceFork(th)
	in.threads = append(in.threads, th)
	return th
}

func (th *Thread) top() *Frame { return th.frames[len(th.frames)-1] }

func (in *Interp) pushFrame(th *Thread, fn *ssa.Function, args []Value, bind []Value, dst ssa.Value) *Frame {
	if fn.Blocks == nil {
		panic(in.unsupported("call of function without body: " + fn.String()))
	}
	if len(th.frames) > 400 {
		panic(abort{abStepLimit, "stack depth exceeded in " + fn.String()})
	}
	in.funcsSeen[fn]++
	f := &Frame{fn: fn, env: make(map[ssa.Value]Value, 16), block: fn.Blocks[0], dst: dst}
	for i, p := range fn.Params {
		f.env[p] = args[i]
	}
	for i, fv := range fn.FreeVars {
		f.env[fv] = bind[i]
	}
	th.frames = append(th.frames, f)
	return f
}

// get evaluates an SSA operand in frame f.
func (in *Interp) get(f *Frame, v ssa.Value) Value {
	switch x := v.(type) {
	case *ssa.Const:
		return in.constValue(x)
	case *ssa.Global:
		return Ptr{c: in.globalCell(x)}
	case *ssa.Function:
		return FuncV{fn: x}
	case *ssa.Builtin:
		return FuncV{bi: x}
	}
	r, ok := f.env[v]
	if !ok {
		panic(in.unsupported(fmt.Sprintf("unbound SSA value %s (%T)", v.Name(), v)))
	}
	return r
}

func (in *Interp) constValue(c *ssa.Const) Value {
	t := c.Type()
	if c.Value == nil {
		return in.zero(t)
	}
	if w, _, ok := typeWidth(t); ok {
		if w == 0 {
			return in.tb.Bool(constant.BoolVal(c.Value))
		}
		if c.Value.Kind() == constant.Float {
			// constant float converted to int type cannot occur; fallthrough
		}
		iv := constant.ToInt(c.Value)
		if u, ok := constant.Uint64Val(iv); ok {
			return in.tb.Const(u, w)
		}
		if s, ok := constant.Int64Val(iv); ok {
			return in.tb.Const(uint64(s), w)
		}
		panic(in.unsupported("big constant"))
	}
	switch u := t.Underlying().(type) {
	case *types.Basic:
		switch {
		case u.Info()&types.IsString != 0:
			return constStr(constant.StringVal(c.Value), in.tb)
		case u.Info()&types.IsFloat != 0:
			fv, _ := constant.Float64Val(c.Value)
			return FloatV(fv)
		}
	}
	panic(in.unsupported("constant of type " + t.String()))
}

func (in *Interp) globalCell(g *ssa.Global) *Cell {
	if c, ok := in.globals[g]; ok {
		return c
	}
	in.ensureInit(g.Pkg)
	if c, ok := in.globals[g]; ok {
		return c
	}
	elem := g.Type().(*types.Pointer).Elem()
	c := in.newCell(elem, in.newObject(elem, "global "+g.String()))
	in.globals[g] = c
	if !in.runsInit(g.Pkg) {
		in.materialiseExternalGlobal(g, c)
	}
	return c
}

func (in *Interp) runsInit(p *ssa.Package) bool {
	if in.coapPkgs[p] {
		return true
	}
	switch p.Pkg.Path() {
	case "context", "errors", "io", "golang.org/x/sync/semaphore", "container/list", "bytes", "encoding/binary",
		"github.com/dsnet/golib/memfile", "go.uber.org/atomic", "io/fs", "os", "syscall", "net", "strconv", "unicode/utf8", "math/bits", "sort", "slices", "strings", "encoding/hex", "golang.org/x/exp/maps", "golang.org/x/exp/constraints":
		return p.Pkg.Path() == "context" || p.Pkg.Path() == "io" || p.Pkg.Path() == "bytes" || p.Pkg.Path() == "github.com/dsnet/golib/memfile"
	}
	return false
}

// ensureInit runs the package initialiser of p the first time one of its globals is touched on this path.
func (in *Interp) ensureInit(p *ssa.Package) {
	if p == nil || in.inited[p] {
		return
	}
	in.inited[p] = true
	if !in.runsInit(p) {
		return
	}
	initFn := p.Func("init")
	if initFn == nil || initFn.Blocks == nil {
		return
	}
	// run on a scratch thread so that the current frames are not disturbed
	saved := in.cur
	th := &Thread{id: -1, name: "init:" + p.Pkg.Path()}
	in.cur = th
	in.pushFrame(th, initFn, nil, nil, nil)
	in.runSyncLoop(th, 0)
	if th.pan != nil {
		panic(abort{abPanic, "panic in init of " + p.Pkg.Path() + ": " + th.pan.msg})
	}
	in.cur = saved
}

// materialiseExternalGlobal gives un-initialised standard-library globals a usable value.
func (in *Interp) materialiseExternalGlobal(g *ssa.Global, c *Cell) {
	elem := g.Type().(*types.Pointer).Elem()
	if types.Identical(elem, types.Universe.Lookup("error").Type()) {
		c.v = in.sentinelError(g.Pkg.Pkg.Path() + "." + g.Name())
		return
	}
	name := g.Pkg.Pkg.Path() + "." + g.Name()
	if b, ok := extByteGlobals[name]; ok {
		// package-level byte slices of packages whose initialiser is not run (their values are constants)
		arr := in.newArrayCell(types.Typ[types.Uint8], len(b), "global "+name)
		for i, x := range b {
			arr.kids[i].v = in.tb.Const(uint64(x), 8)
		}
		c.v = SliceV{arr: arr, off: 0, len: len(b), cap: len(b)}
		in.note("extglobal-const:" + name)
		return
	}
	if extFreshHandleGlobals[name] && c.agg && len(c.kids) == 1 {
		// unique.Handle values compared by identity only (net/netip.z4, z6noz): a fresh distinct non-nil pointer
		if pt, ok := c.kids[0].t.Underlying().(*types.Pointer); ok {
			c.kids[0].v = Ptr{c: in.newCell(pt.Elem(), in.newObject(pt.Elem(), "global "+name))}
			in.note("extglobal-handle:" + name)
			return
		}
	}
	in.note("extglobal-zero:" + name)
}

var extFreshHandleGlobals = map[string]bool{"net/netip.z4": true, "net/netip.z6noz": true}

var v4p = []byte{0, 0, 0, 0, 0, 0, 0, 0, 0, 0, 0xff, 0xff}

func v4(a, b, c, d byte) []byte { return append(append([]byte(nil), v4p...), a, b, c, d) }

// values taken from the Go standard library source (net/ip.go)
var extByteGlobals = map[string][]byte{
	"net.v4InV6Prefix":              v4p,
	"net.IPv4zero":                  v4(0, 0, 0, 0),
	"net.IPv4bcast":                 v4(255, 255, 255, 255),
	"net.IPv4allsys":                v4(224, 0, 0, 1),
	"net.IPv4allrouter":             v4(224, 0, 0, 2),
	"net.IPv6zero":                  make([]byte, 16),
	"net.IPv6unspecified":           make([]byte, 16),
	"net.IPv6loopback":              {0, 0, 0, 0, 0, 0, 0, 0, 0, 0, 0, 0, 0, 0, 0, 1},
	"net.IPv6interfacelocalallnodes": {0xff, 0x01, 0, 0, 0, 0, 0, 0, 0, 0, 0, 0, 0, 0, 0, 0x01},
	"net.IPv6linklocalallnodes":     {0xff, 0x02, 0, 0, 0, 0, 0, 0, 0, 0, 0, 0, 0, 0, 0, 0x01},
	"net.IPv6linklocalallrouters":   {0xff, 0x02, 0, 0, 0, 0, 0, 0, 0, 0, 0, 0, 0, 0, 0, 0x02},
	"net.classAMask":                {0xff, 0, 0, 0},
	"net.classBMask":                {0xff, 0xff, 0, 0},
	"net.classCMask":                {0xff, 0xff, 0xff, 0},
}

// sentinelError creates a unique error value for an un-modelled package-level error.
func (in *Interp) sentinelError(name string) Value {
	if v, ok := in.errSent[name]; ok {
		return v
	}
	errPkg := in.prog.ImportedPackage("errors")
	var v Value
	if errPkg != nil {
		if tn := errPkg.Type("errorString"); tn != nil {
			st := tn.Type()
			cell := in.newCell(st, in.newObject(st, "sentinel "+name))
			cell.kids[0].v = constStr(name, in.tb)
			v = IfaceV{t: types.NewPointer(st), v: Ptr{c: cell}}
		}
	}
	if v == nil {
		panic(in.unsupported("errors package not loaded"))
	}
	in.errSent[name] = v
	return v
}

// ---------- the step function ----------

func (in *Interp) step(th *Thread) {
	if th.unwinding {
		th.unwinding = false
		in.continueUnwind(th)
		return
	}
	f := th.top()
	if f.block == nil { // frame finished (return processed)
		in.popFrame(th)
		return
	}
	in.nsteps++
	in.totalInst++
	if in.nsteps > in.cfg.StepLimit {
		panic(abort{abStepLimit, "step limit exceeded in " + f.fn.String()})
	}
	instr := f.block.Instrs[f.ip]
	if in.cfg.Trace {
		fmt.Printf("T%d %s: %s\n", th.id, f.fn.Name(), instr)
	}
	in.exec(th, f, instr)
}

func (in *Interp) jump(f *Frame, to *ssa.BasicBlock) {
	f.prev = f.block
	f.block = to
	f.ip = 0
	// phis are evaluated simultaneously
	var vals []Value
	n := 0
	for _, ins := range to.Instrs {
		phi, ok := ins.(*ssa.Phi)
		if !ok {
			break
		}
		idx := -1
		for i, p := range to.Preds {
			if p == f.prev {
				idx = i
				break
			}
		}
		vals = append(vals, in.get(f, phi.Edges[idx]))
		n++
	}
	for i := 0; i < n; i++ {
		f.env[to.Instrs[i].(*ssa.Phi)] = vals[i]
	}
	f.ip = n
}

func (in *Interp) exec(th *Thread, f *Frame, instr ssa.Instruction) {
	switch x := instr.(type) {
	case *ssa.DebugRef:
		f.ip++
	case *ssa.Alloc:
		elem := x.Type().(*types.Pointer).Elem()
		site := ""
		if in.cfg.Debug {
			site = in.fset.Position(x.Pos()).String()
		}
		f.env[x] = Ptr{c: in.newCell(elem, in.newObject(elem, site))}
		f.ip++
	case *ssa.BinOp:
		xv, yv := in.get(f, x.X), in.get(f, x.Y)
		if x.Op == token.QUO || x.Op == token.REM {
			if yt, ok := yv.(*Term); ok && yt.w > 0 {
				if in.branch(in.tb.Eq(yt, in.tb.Const(0, yt.w)), "divzero") {
					in.goPanic(th, "runtime error: integer divide by zero")
					return
				}
			}
		}
		f.env[x] = in.binop(x.Op, x.X.Type(), xv, yv, x.Y.Type())
		f.ip++
	case *ssa.UnOp:
		if x.Op == token.ARROW {
			in.execRecv(th, f, x)
			return
		}
		if x.Op == token.MUL {
			p := in.get(f, x.X).(Ptr)
			if p.IsNil() {
				in.goPanic(th, "runtime error: invalid memory address or nil pointer dereference (load)")
				return
			}
			f.env[x] = in.loadPtr(p, f)
			f.ip++
			return
		}
		f.env[x] = in.unop(x, in.get(f, x.X))
		f.ip++
	case *ssa.Call:
		in.execCall(th, f, x, &x.Call, x)
	case *ssa.ChangeInterface:
		f.env[x] = in.get(f, x.X)
		f.ip++
	case *ssa.ChangeType:
		f.env[x] = in.get(f, x.X)
		f.ip++
	case *ssa.Convert:
		f.env[x] = in.convert(x.X.Type(), x.Type(), in.get(f, x.X))
		f.ip++
	case *ssa.MultiConvert:
		f.env[x] = in.convert(x.X.Type(), x.Type(), in.get(f, x.X))
		f.ip++
	case *ssa.Extract:
		f.env[x] = in.get(f, x.Tuple).(TupleV)[x.Index]
		f.ip++
	case *ssa.Field:
		f.env[x] = in.get(f, x.X).(StructV).f[x.Field]
		f.ip++
	case *ssa.FieldAddr:
		p := in.get(f, x.X).(Ptr)
		if p.IsNil() {
			in.goPanic(th, "runtime error: invalid memory address or nil pointer dereference (field "+x.String()+")")
			return
		}
		in.ghostAccess(p.c, f)
		f.env[x] = Ptr{c: p.c.kids[x.Field]}
		f.ip++
	case *ssa.Index:
		in.execIndex(th, f, x)
	case *ssa.IndexAddr:
		in.execIndexAddr(th, f, x)
	case *ssa.Lookup:
		in.execLookup(th, f, x)
	case *ssa.MakeChan:
		n := int(in.concretize(in.intTerm(in.get(f, x.Size)), "chan size"))
		in.nchan++
		f.env[x] = &ChanObj{id: in.nchan, cap: n, et: x.Type().Underlying().(*types.Chan).Elem()}
		f.ip++
	case *ssa.MakeClosure:
		bind := make([]Value, len(x.Bindings))
		for i, b := range x.Bindings {
			bind[i] = in.get(f, b)
		}
		f.env[x] = FuncV{fn: x.Fn.(*ssa.Function), bind: bind}
		f.ip++
	case *ssa.MakeInterface:
		f.env[x] = IfaceV{t: x.X.Type(), v: in.get(f, x.X)}
		f.ip++
	case *ssa.MakeMap:
		mt := x.Type().Underlying().(*types.Map)
		in.nobj++
		f.env[x] = &MapObj{id: in.nobj, kt: mt.Key(), vt: mt.Elem()}
		f.ip++
	case *ssa.MakeSlice:
		n := int(in.concretize(in.intTerm(in.get(f, x.Len)), "make len"))
		c := int(in.concretize(in.intTerm(in.get(f, x.Cap)), "make cap"))
		if n < 0 || c < n {
			in.goPanic(th, "runtime error: makeslice: len out of range")
			return
		}
		if c > 1<<22 {
			panic(in.unsupported("makeslice too large"))
		}
		et := x.Type().Underlying().(*types.Slice).Elem()
		f.env[x] = SliceV{arr: in.newArrayCell(et, c, "makeslice"), off: 0, len: n, cap: c}
		f.ip++
	case *ssa.MapUpdate:
		m := in.get(f, x.Map).(*MapObj)
		if m == nil {
			in.goPanic(th, "assignment to entry in nil map")
			return
		}
		in.raceMap(m, true, f)
		in.mapStore(m, in.get(f, x.Key), in.get(f, x.Value))
		f.ip++
	case *ssa.Next:
		f.env[x] = in.execNext(f, x)
		f.ip++
	case *ssa.Range:
		if m, ok := in.get(f, x.X).(*MapObj); ok {
			in.raceMap(m, false, f)
		}
		f.env[x] = in.execRange(in.get(f, x.X))
		f.ip++
	case *ssa.Phi:
		panic(in.unsupported("phi reached by step"))
	case *ssa.Select:
		in.execSelect(th, f, x)
	case *ssa.Send:
		in.execSend(th, f, x)
	case *ssa.Slice:
		in.execSlice(th, f, x)
	case *ssa.SliceToArrayPointer:
		s := in.get(f, x.X).(SliceV)
		n := int(x.Type().(*types.Pointer).Elem().Underlying().(*types.Array).Len())
		if s.len < n {
			in.goPanic(th, "runtime error: cannot convert slice to array pointer: length")
			return
		}
		if s.arr == nil {
			f.env[x] = Ptr{}
		} else {
			f.env[x] = Ptr{c: in.subArray(s.arr, s.off, n)}
		}
		f.ip++
	case *ssa.Store:
		p := in.get(f, x.Addr).(Ptr)
		if p.IsNil() {
			in.goPanic(th, "runtime error: invalid memory address or nil pointer dereference (store)")
			return
		}
		in.storePtr(p, in.get(f, x.Val), f)
		f.ip++
	case *ssa.TypeAssert:
		in.execTypeAssert(th, f, x)
	case *ssa.If:
		c := in.get(f, x.Cond).(*Term)
		var dir bool
		if c.IsConst() {
			dir = c.op == OpTrue
		} else {
			if !in.cfg.NoIfConv && in.tryIfConvert(f, c) {
				return
			}
			if f.symIter == nil {
				f.symIter = map[ssa.Instruction]int{}
			}
			before := len(in.dec)
			kind := "if"
			if in.cfg.Sites {
				kind = "if@" + in.fset.Position(x.Cond.Pos()).String()
			}
			dir = in.branch(c, kind)
			if len(in.dec) > before {
				f.symIter[instr]++
				lim := in.cfg.SymUnwind
				if in.loopBoundOverride > 0 {
					lim = in.loopBoundOverride
				}
				if f.symIter[instr] > lim {
					panic(abort{abUnwind, fmt.Sprintf("unwinding bound %d exceeded at %s", lim, in.fset.Position(x.Cond.Pos()))})
				}
			}
		}
		if dir {
			in.jump(f, f.block.Succs[0])
		} else {
			in.jump(f, f.block.Succs[1])
		}
	case *ssa.Jump:
		in.jump(f, f.block.Succs[0])
	case *ssa.Return:
		var res Value
		switch len(x.Results) {
		case 0:
		case 1:
			res = in.get(f, x.Results[0])
		default:
			tv := make(TupleV, len(x.Results))
			for i, r := range x.Results {
				tv[i] = in.get(f, r)
			}
			res = tv
		}
		f.result = res
		f.hasResult = true
		f.block = nil
	case *ssa.Panic:
		v := in.get(f, x.X)
		in.goPanicVal(th, v, in.describePanic(v))
	case *ssa.Defer:
		d := in.prepareCall(f, &x.Call)
		f.defers = append(f.defers, d)
		f.ip++
	case *ssa.RunDefers:
		if len(f.defers) > 0 {
			d := f.defers[len(f.defers)-1]
			f.defers = f.defers[:len(f.defers)-1]
			in.invoke(th, d.fn, d.args, nil, true, x.Pos())
			if th.atVisible { // the deferred call yielded to the scheduler: keep it
				f.defers = append(f.defers, d)
			}
			return // RunDefers is re-executed until no defers remain
		}
		f.ip++
	case *ssa.Go:
		if !in.visible(th, f, "go", nil) {
			return
		}
		d := in.prepareCall(f, &x.Call)
		nt := in.newThread("go " + in.fset.Position(x.Pos()).String())
		nt.atVisible = true
		nt.opDesc = "start"
		saved := in.cur
		in.cur = nt
		in.invokeOn(nt, d.fn, d.args, nil, false)
		in.cur = saved
		f.ip++
	default:
		panic(in.unsupported(fmt.Sprintf("instruction %T", instr)))
	}
}

// popFrame completes a return from the top frame.
func (in *Interp) popFrame(th *Thread) {
	f := th.top()
	th.frames = th.frames[:len(th.frames)-1]
	if in.ghostOn {
		in.ghostReturn(f.fn, f)
	}
	if f.onReturn != nil {
		f.onReturn(f.result)
	}
	if len(th.frames) == 0 {
		th.done = true
		return
	}
	if f.marker {
		return
	}
	caller := th.top()
	if f.isDefer {
		// resume the caller: either RunDefers (normal) or panic unwinding
		if caller.panicking {
			in.continueUnwind(th)
		}
		return
	}
	if f.dst != nil {
		caller.env[f.dst] = f.result
	}
	caller.ip++
}

// ---------- panics ----------

func (in *Interp) describePanic(v Value) string {
	if iv, ok := v.(IfaceV); ok {
		switch x := iv.v.(type) {
		case StrV:
			if s, ok := x.concrete(); ok {
				return s
			}
		}
		if iv.t != nil {
			return "panic(" + iv.t.String() + ")"
		}
	}
	return "panic"
}

func (in *Interp) goPanic(th *Thread, msg string) {
	in.goPanicVal(th, IfaceV{t: types.Typ[types.String], v: constStr(msg, in.tb)}, msg)
}

func (in *Interp) goPanicVal(th *Thread, v Value, msg string) {
	th.pan = &panicInfo{val: v, msg: msg}
	if in.cfg.Debug {
		fmt.Printf("  [panic] %s\n", msg)
	}
	if len(th.frames) == 0 {
		panic(abort{abPanic, msg})
	}
	th.top().panicking = true
	in.continueUnwind(th)
}

// continueUnwind runs the next deferred call of the panicking top frame, or pops it.
func (in *Interp) continueUnwind(th *Thread) {
	for {
		if len(th.frames) == 0 {
			panic(abort{abPanic, th.pan.msg})
		}
		f := th.top()
		if len(f.defers) > 0 {
			d := f.defers[len(f.defers)-1]
			f.defers = f.defers[:len(f.defers)-1]
			in.invoke(th, d.fn, d.args, nil, true, token.NoPos)
			if th.atVisible {
				f.defers = append(f.defers, d)
				th.unwinding = true
			}
			return
		}
		if th.pan == nil {
			// recovered: the frame returns normally through its Recover block (or with zero results)
			f.panicking = false
			if f.fn.Recover != nil {
				in.jump(f, f.fn.Recover)
				return
			}
			res := f.fn.Signature.Results()
			switch res.Len() {
			case 0:
				f.result = nil
			case 1:
				f.result = in.zero(res.At(0).Type())
			default:
				f.result = in.zero(res)
			}
			f.block = nil
			return
		}
		if f.marker {
			panic(in.unsupported("panic escapes synchronous stub call: " + th.pan.msg))
		}
		// pop the frame without result and continue in the caller
		th.frames = th.frames[:len(th.frames)-1]
		if len(th.frames) == 0 {
			panic(abort{abPanic, th.pan.msg})
		}
		th.top().panicking = true
	}
}

// ---------- calls ----------

func (in *Interp) prepareCall(f *Frame, c *ssa.CallCommon) *deferRec {
	var args []Value
	var fnv Value
	if c.IsInvoke() {
		recv := in.get(f, c.Value).(IfaceV)
		if recv.t == nil {
			// nil interface method call: panic at call time
			return &deferRec{fn: FuncV{}, args: nil}
		}
		fn := in.lookupMethod(recv.t, c.Method)
		fnv = FuncV{fn: fn}
		args = append(args, recv.v)
	} else {
		fnv = in.get(f, c.Value)
	}
	for _, a := range c.Args {
		args = append(args, in.get(f, a))
	}
	return &deferRec{fn: fnv, args: args}
}

func (in *Interp) lookupMethod(t types.Type, m *types.Func) *ssa.Function {
	ms := in.prog.MethodSets.MethodSet(t)
	sel := ms.Lookup(m.Pkg(), m.Name())
	if sel == nil {
		panic(in.unsupported(fmt.Sprintf("method %s not found on %s", m.Name(), t)))
	}
	fn := in.prog.MethodValue(sel)
	if fn == nil {
		panic(in.unsupported(fmt.Sprintf("abstract method %s on %s", m.Name(), t)))
	}
	return fn
}

func (in *Interp) execCall(th *Thread, f *Frame, dst ssa.Value, c *ssa.CallCommon, instr ssa.Instruction) {
	if c.IsInvoke() {
		recv := in.get(f, c.Value).(IfaceV)
		if recv.t == nil {
			in.goPanic(th, "runtime error: invalid memory address or nil pointer dereference (nil interface method call "+c.Method.Name()+")")
			return
		}
	}
	if b, ok := c.Value.(*ssa.Builtin); ok && b.Name() == "Sizeof" {
		sz := (&types.StdSizes{WordSize: 8, MaxAlign: 8}).Sizeof(c.Args[0].Type())
		f.env[dst] = in.tb.Const(uint64(sz), 64)
		f.ip++
		return
	}
	d := in.prepareCall(f, c)
	in.invoke(th, d.fn, d.args, dst, false, instr.Pos())
}

// invoke calls fnv with args on thread th. For ordinary calls the result goes to dst in the current top frame
// and that frame's ip advances when the callee returns. isDefer marks deferred calls.
func (in *Interp) invoke(th *Thread, fnv Value, args []Value, dst ssa.Value, isDefer bool, pos token.Pos) {
	fv, ok := fnv.(FuncV)
	if !ok {
		panic(in.unsupported(fmt.Sprintf("call of %T", fnv)))
	}
	caller := th.top()
	if fv.bi != nil {
		res, ok := in.callBuiltin(th, caller, fv.bi, args, dst)
		if !ok {
			return
		}
		in.finishDirect(th, caller, dst, res, isDefer)
		return
	}
	if fv.fn == nil {
		in.goPanic(th, "runtime error: invalid memory address or nil pointer dereference (nil func call)")
		return
	}
	fn := fv.fn
	if fn.Synthetic == "package initializer" && fn.Pkg != nil {
		if !in.runsInit(fn.Pkg) {
			in.inited[fn.Pkg] = true
			in.finishDirect(th, caller, dst, nil, isDefer)
			return
		}
		in.inited[fn.Pkg] = true
	}
	if strings.HasPrefix(fn.Name(), "zzPure") && !in.inPure {
		in.inPure = true
		res := in.summarize(th, fv, args)
		in.inPure = false
		in.finishDirect(th, caller, dst, res, isDefer)
		return
	}
	if st := in.findStub(fn); st != nil {
		in.stubsUsed[stubName(fn)]++
		res, status := st(in, th, fn, args)
		switch status {
		case stDone:
			in.finishDirect(th, caller, dst, res, isDefer)
		case stYield, stPushed, stPanicked:
			// stYield: instruction will be re-executed; stPushed: a frame was pushed which completes the call
		}
		return
	}
	if fn.Blocks == nil {
		panic(in.unsupported("no body and no model for " + fn.String()))
	}
	if in.ghostOn {
		in.ghostCall(th, fn, args)
	}
	nf := in.pushFrame(th, fn, args, fv.bind, dst)
	nf.isDefer = isDefer
}

func (in *Interp) invokeOn(th *Thread, fnv Value, args []Value, dst ssa.Value, isDefer bool) {
	fv := fnv.(FuncV)
	if fv.fn == nil || fv.bi != nil {
		panic(in.unsupported("go statement with builtin or nil function"))
	}
	if st := in.findStub(fv.fn); st != nil {
		panic(in.unsupported("go statement on modelled function " + fv.fn.String()))
	}
	in.pushFrame(th, fv.fn, args, fv.bind, nil)
}

func (in *Interp) finishDirect(th *Thread, caller *Frame, dst ssa.Value, res Value, isDefer bool) {
	if isDefer {
		if caller.panicking {
			in.continueUnwind(th)
		}
		return
	}
	if dst != nil {
		caller.env[dst] = res
	}
	caller.ip++
}

// callSync runs fn to completion on th (used by models that call back into interpreted code).
func (in *Interp) callSync(th *Thread, fnv FuncV, args []Value) Value {
	if fnv.fn == nil {
		panic(in.unsupported("callSync nil"))
	}
	if st := in.findStub(fnv.fn); st != nil {
		res, status := st(in, th, fnv.fn, args)
		if status != stDone {
			panic(in.unsupported("callSync on blocking model " + fnv.fn.String()))
		}
		return res
	}
	depth := len(th.frames)
	nf := in.pushFrame(th, fnv.fn, args, fnv.bind, nil)
	nf.marker = true
	var out Value
	nf.onReturn = func(v Value) { out = v }
	saved := in.cur
	in.cur = th
	for len(th.frames) > depth {
		if th.atVisible {
			// blocking inside a synchronous call is not supported; grant immediately if enabled
			if th.enabled != nil && !th.enabled() {
				panic(in.unsupported("blocking operation inside synchronous model call"))
			}
			th.atVisible = false
			th.granted = true
		}
		in.step(th)
	}
	in.cur = saved
	return out
}

// ---------- memory ----------

func (in *Interp) loadPtr(p Ptr, f *Frame) Value {
	if p.c != nil {
		in.ghostAccess(p.c, f)
		in.raceCell(p.c, false, f)
		return in.loadCell(p.c)
	}
	// symbolic index into array of scalars
	in.ghostAccess(p.arr, f)
	in.raceCell(p.arr, false, f)
	n := len(p.arr.kids)
	var res Value
	for i := n - 1; i >= 0; i-- {
		v := in.loadCell(p.arr.kids[i])
		if res == nil {
			res = v
			continue
		}
		c := in.tb.Eq(p.idx, in.tb.Const(uint64(i), p.idx.w))
		if c.op == OpFalse {
			continue
		}
		if c.op == OpTrue {
			return v
		}
		r, ok := in.iteValue(c, v, res)
		if !ok {
			panic(in.unsupported("symbolic index load of non-mergeable element"))
		}
		res = r
	}
	return res
}

func (in *Interp) storePtr(p Ptr, v Value, f *Frame) {
	if p.c != nil {
		in.ghostAccess(p.c, f)
		in.raceCell(p.c, true, f)
		in.storeCell(p.c, v)
		return
	}
	in.ghostAccess(p.arr, f)
	in.raceCell(p.arr, true, f)
	for i, k := range p.arr.kids {
		c := in.tb.Eq(p.idx, in.tb.Const(uint64(i), p.idx.w))
		if c.op == OpFalse {
			continue
		}
		old := in.loadCell(k)
		nv, ok := in.iteValue(c, v, old)
		if !ok {
			panic(in.unsupported("symbolic index store of non-mergeable element"))
		}
		in.storeCell(k, nv)
	}
}

// subArray returns a view cell of n elements starting at off (shares the element cells).
func (in *Interp) subArray(arr *Cell, off, n int) *Cell {
	if off == 0 && n == len(arr.kids) {
		return arr
	}
	et := arr.t.Underlying().(*types.Array).Elem()
	return &Cell{agg: true, obj: arr.obj, t: types.NewArray(et, int64(n)), kids: arr.kids[off : off+n]}
}

func (in *Interp) execIndexAddr(th *Thread, f *Frame, x *ssa.IndexAddr) {
	base := in.get(f, x.X)
	idx := in.intTerm(in.get(f, x.Index))
	if idx.w != 64 {
		_, signed, _ := typeWidth(x.Index.Type())
		if signed {
			idx = in.tb.SExt(idx, 64)
		} else {
			idx = in.tb.ZExt(idx, 64)
		}
	}
	idx = in.resolve(idx)
	var arr *Cell
	off, n := 0, 0
	switch b := base.(type) {
	case SliceV:
		arr, off, n = b.arr, b.off, b.len
	case Ptr:
		if b.IsNil() {
			in.goPanic(th, "runtime error: nil pointer dereference (index)")
			return
		}
		arr, n = b.c, len(b.c.kids)
	default:
		panic(in.unsupported(fmt.Sprintf("IndexAddr on %T", base)))
	}
	if idx.op == OpConst {
		i := sx(idx.val, 64)
		if i < 0 || i >= int64(n) {
			in.goPanic(th, fmt.Sprintf("runtime error: index out of range [%d] with length %d", i, n))
			return
		}
		f.env[x] = Ptr{c: arr.kids[off+int(i)]}
		f.ip++
		return
	}
	inb := in.tb.Cmp(OpUlt, idx, in.tb.Const(uint64(n), 64))
	if !in.branch(inb, "bounds") {
		in.goPanic(th, fmt.Sprintf("runtime error: index out of range [symbolic] with length %d", n))
		return
	}
	if n == 1 {
		f.env[x] = Ptr{c: arr.kids[off]}
		f.ip++
		return
	}
	if n > 0 && !arr.kids[off].agg && n <= 4096 {
		if _, isT := arr.kids[off].v.(*Term); isT {
			view := in.subArray(arr, off, n)
			f.env[x] = Ptr{arr: view, idx: idx}
			f.ip++
			return
		}
	}
	i := in.concretize(idx, "index")
	if i < 0 || i >= int64(n) {
		in.goPanic(th, "runtime error: index out of range")
		return
	}
	f.env[x] = Ptr{c: arr.kids[off+int(i)]}
	f.ip++
}

func (in *Interp) execIndex(th *Thread, f *Frame, x *ssa.Index) {
	base := in.get(f, x.X)
	idx := in.intTerm(in.get(f, x.Index))
	switch b := base.(type) {
	case ArrayV:
		i := in.concretize(idx, "array index")
		if i < 0 || i >= int64(len(b.e)) {
			in.goPanic(th, "runtime error: index out of range")
			return
		}
		f.env[x] = b.e[i]
	case StrV:
		v, ok := in.strIndex(th, b, idx)
		if !ok {
			return
		}
		f.env[x] = v
	default:
		panic(in.unsupported(fmt.Sprintf("Index on %T", base)))
	}
	f.ip++
}

func (in *Interp) strIndex(th *Thread, s StrV, idx *Term) (Value, bool) {
	if idx.w != 64 {
		idx = in.tb.ZExt(idx, 64)
	}
	idx = in.resolve(idx)
	n := len(s.b)
	if idx.op == OpConst {
		i := sx(idx.val, 64)
		if i < 0 || i >= int64(n) {
			in.goPanic(th, "runtime error: index out of range (string)")
			return nil, false
		}
		return s.b[i], true
	}
	inb := in.tb.Cmp(OpUlt, idx, in.tb.Const(uint64(n), 64))
	if !in.branch(inb, "bounds") {
		in.goPanic(th, "runtime error: index out of range (string)")
		return nil, false
	}
	res := s.b[n-1]
	for i := n - 2; i >= 0; i-- {
		res = in.tb.Ite(in.tb.Eq(idx, in.tb.Const(uint64(i), 64)), s.b[i], res)
	}
	return res, true
}

func (in *Interp) execSlice(th *Thread, f *Frame, x *ssa.Slice) {
	base := in.get(f, x.X)
	bound := func(v ssa.Value, def int) (int, bool) {
		if v == nil {
			return def, true
		}
		t := in.intTerm(in.get(f, v))
		if t.w != 64 {
			_, signed, _ := typeWidth(v.Type())
			if signed {
				t = in.tb.SExt(t, 64)
			} else {
				t = in.tb.ZExt(t, 64)
			}
		}
		if t.op != OpConst {
			// out of range first: fork a panic path if some value is out of [0, 1<<22]
			ok := in.tb.Cmp(OpUle, t, in.tb.Const(1<<22, 64))
			if !in.branch(ok, "slicebound") {
				in.goPanic(th, "runtime error: slice bounds out of range [symbolic]")
				return 0, false
			}
		}
		return int(in.concretize(t, "slice bound")), true
	}
	switch b := base.(type) {
	case StrV:
		lo, ok := bound(x.Low, 0)
		if !ok {
			return
		}
		hi, ok := bound(x.High, len(b.b))
		if !ok {
			return
		}
		if lo < 0 || hi < lo || hi > len(b.b) {
			in.goPanic(th, fmt.Sprintf("runtime error: slice bounds out of range [%d:%d] with length %d", lo, hi, len(b.b)))
			return
		}
		f.env[x] = StrV{b.b[lo:hi]}
	case SliceV:
		lo, ok := bound(x.Low, 0)
		if !ok {
			return
		}
		hi, ok := bound(x.High, b.len)
		if !ok {
			return
		}
		mx, ok := bound(x.Max, b.cap)
		if !ok {
			return
		}
		if lo < 0 || hi < lo || mx < hi || mx > b.cap {
			in.goPanic(th, fmt.Sprintf("runtime error: slice bounds out of range [%d:%d:%d] with capacity %d", lo, hi, mx, b.cap))
			return
		}
		if b.arr == nil {
			f.env[x] = SliceV{}
		} else {
			f.env[x] = SliceV{arr: b.arr, off: b.off + lo, len: hi - lo, cap: mx - lo}
		}
	case Ptr: // *array
		if b.IsNil() {
			in.goPanic(th, "runtime error: nil pointer dereference (slice of *array)")
			return
		}
		n := len(b.c.kids)
		lo, ok := bound(x.Low, 0)
		if !ok {
			return
		}
		hi, ok := bound(x.High, n)
		if !ok {
			return
		}
		mx, ok := bound(x.Max, n)
		if !ok {
			return
		}
		if lo < 0 || hi < lo || mx < hi || mx > n {
			in.goPanic(th, fmt.Sprintf("runtime error: slice bounds out of range [%d:%d:%d] with array length %d", lo, hi, mx, n))
			return
		}
		f.env[x] = SliceV{arr: b.c, off: lo, len: hi - lo, cap: mx - lo}
	default:
		panic(in.unsupported(fmt.Sprintf("Slice on %T", base)))
	}
	f.ip++
}

// ---------- maps ----------

// keyEq returns the condition under which two map keys are equal.
func (in *Interp) keyEq(a, b Value) *Term {
	return in.valuesEqual(a, b)
}

// mapFind returns candidate entries with their match conditions (first constant-true match ends the list).
func (in *Interp) mapFind(m *MapObj, k Value) (idx []int, conds []*Term) {
	if m == nil {
		return nil, nil
	}
	for i, e := range m.ents {
		c := in.keyEq(e.k, k)
		if c.op == OpFalse {
			continue
		}
		idx = append(idx, i)
		conds = append(conds, c)
		if c.op == OpTrue {
			break
		}
	}
	return
}

func (in *Interp) mapStore(m *MapObj, k, v Value) {
	idx, conds := in.mapFind(m, k)
	for j, i := range idx {
		if in.branch(conds[j], "mapkey") {
			m.ents[i].v = v
			m.version++
			return
		}
	}
	m.ents = append(m.ents, mapEntry{k, v})
	m.version++
}

func (in *Interp) mapDelete(m *MapObj, k Value) {
	idx, conds := in.mapFind(m, k)
	for j, i := range idx {
		if in.branch(conds[j], "mapkey") {
			m.ents = append(m.ents[:i:i], m.ents[i+1:]...)
			m.version++
			return
		}
	}
}

// mapLoad returns (value, ok-term).
func (in *Interp) mapLoad(m *MapObj, k Value, vt types.Type) (Value, *Term) {
	idx, conds := in.mapFind(m, k)
	if len(idx) == 0 {
		return in.zero(vt), in.tb.F
	}
	if len(idx) == 1 && conds[0].op == OpTrue {
		return m.ents[idx[0]].v, in.tb.T
	}
	// try to merge
	res := in.zero(vt)
	okT := in.tb.F
	merged := true
	for j := len(idx) - 1; j >= 0; j-- {
		r, ok := in.iteValue(conds[j], m.ents[idx[j]].v, res)
		if !ok {
			merged = false
			break
		}
		res = r
		okT = in.tb.BOr(conds[j], okT)
	}
	if merged {
		return res, okT
	}
	for j, i := range idx {
		if in.branch(conds[j], "mapkey") {
			return m.ents[i].v, in.tb.T
		}
	}
	return in.zero(vt), in.tb.F
}

func (in *Interp) execLookup(th *Thread, f *Frame, x *ssa.Lookup) {
	base := in.get(f, x.X)
	switch b := base.(type) {
	case StrV:
		v, ok := in.strIndex(th, b, in.intTerm(in.get(f, x.Index)))
		if !ok {
			return
		}
		f.env[x] = v
	case *MapObj:
		vt := x.X.Type().Underlying().(*types.Map).Elem()
		in.raceMap(b, false, f)
		v, ok := in.mapLoad(b, in.get(f, x.Index), vt)
		if x.CommaOk {
			f.env[x] = TupleV{v, ok}
		} else {
			f.env[x] = v
		}
	default:
		panic(in.unsupported(fmt.Sprintf("Lookup on %T", base)))
	}
	f.ip++
}

func (in *Interp) execRange(v Value) Value {
	switch b := v.(type) {
	case *MapObj:
		it := &rangeIter{m: b}
		if b != nil {
			for _, e := range b.ents {
				it.keys = append(it.keys, e.k)
			}
			if in.cfg.MapOrderAll && len(it.keys) > 1 && len(it.keys) <= 3 && in.cur != nil && in.cur.id >= 0 {
				// explore every iteration order of small maps
				perm := in.decide("maporder", factorial(len(it.keys)))
				it.keys = permute(it.keys, perm)
			}
		}
		return it
	case StrV:
		return &rangeIter{isStr: true, str: b}
	}
	panic(in.unsupported(fmt.Sprintf("Range on %T", v)))
}

func factorial(n int) int {
	r := 1
	for i := 2; i <= n; i++ {
		r *= i
	}
	return r
}

func permute(keys []Value, k int) []Value {
	rest := append([]Value(nil), keys...)
	var out []Value
	for n := len(rest); n > 0; n-- {
		i := k % n
		k /= n
		out = append(out, rest[i])
		rest = append(rest[:i:i], rest[i+1:]...)
	}
	return out
}

func (in *Interp) execNext(f *Frame, x *ssa.Next) Value {
	it := in.get(f, x.Iter).(*rangeIter)
	tup := x.Type().(*types.Tuple)
	if !it.isStr {
		in.raceMap(it.m, false, f)
	}
	if it.isStr {
		if it.pos >= len(it.str.b) {
			return TupleV{in.tb.F, in.tb.Const(0, 64), in.tb.Const(0, 32)}
		}
		b := it.str.b[it.pos]
		if b.op != OpConst {
			// assume ASCII for symbolic bytes: fork on the high bit
			if !in.branch(in.tb.Cmp(OpUlt, b, in.tb.Const(0x80, 8)), "utf8") {
				panic(in.unsupported("range over string with symbolic non-ASCII byte"))
			}
			r := TupleV{in.tb.T, in.tb.Const(uint64(it.pos), 64), in.tb.ZExt(b, 32)}
			it.pos++
			return r
		}
		s, _ := StrV{it.str.b[it.pos:min(len(it.str.b), it.pos+4)]}.concreteLoose()
		rn, size := decodeRune(s)
		r := TupleV{in.tb.T, in.tb.Const(uint64(it.pos), 64), in.tb.Const(uint64(rn), 32)}
		it.pos += size
		return r
	}
	kt, vt := tup.At(1).Type(), tup.At(2).Type()
	for it.pos < len(it.keys) {
		k := it.keys[it.pos]
		it.pos++
		// deleted entries are skipped; entries inserted during iteration are not visited
		for _, e := range it.m.ents {
			if same, ok := in.sameKey(e.k, k); ok && same {
				var kv, vv Value = k, e.v
				if isInvalidType(kt) {
					kv = nil
				}
				if isInvalidType(vt) {
					vv = nil
				}
				return TupleV{in.tb.T, kv, vv}
			}
		}
	}
	var zk, zv Value
	if !isInvalidType(kt) {
		zk = in.zero(kt)
	}
	if !isInvalidType(vt) {
		zv = in.zero(vt)
	}
	return TupleV{in.tb.F, zk, zv}
}

func isInvalidType(t types.Type) bool {
	b, ok := t.(*types.Basic)
	return ok && b.Kind() == types.Invalid
}

func (in *Interp) sameKey(a, b Value) (bool, bool) {
	c := in.valuesEqual(a, b)
	if c.op == OpTrue {
		return true, true
	}
	if c.op == OpFalse {
		return false, true
	}
	// same term object means same key entry
	return false, true
}

func (s StrV) concreteLoose() (string, bool) {
	bs := make([]byte, 0, len(s.b))
	for _, t := range s.b {
		if t.op != OpConst {
			break
		}
		bs = append(bs, byte(t.val))
	}
	return string(bs), true
}

func decodeRune(s string) (rune, int) {
	for _, r := range s {
		n := len(string(r))
		if r == 0xFFFD {
			n = 1
		}
		return r, n
	}
	return 0xFFFD, 1
}

// ---------- type assertions ----------

func (in *Interp) execTypeAssert(th *Thread, f *Frame, x *ssa.TypeAssert) {
	iv := in.get(f, x.X).(IfaceV)
	ok := false
	var res Value
	if iv.t != nil {
		if it, isI := x.AssertedType.Underlying().(*types.Interface); isI {
			ok = in.implements(iv.t, it)
			res = iv
		} else {
			ok = types.Identical(iv.t, x.AssertedType)
			res = iv.v
		}
	}
	if x.CommaOk {
		if !ok {
			res = in.zero(x.AssertedType)
		}
		f.env[x] = TupleV{res, in.tb.Bool(ok)}
		f.ip++
		return
	}
	if !ok {
		in.goPanic(th, fmt.Sprintf("interface conversion: interface is %v, not %v", iv.t, x.AssertedType))
		return
	}
	f.env[x] = res
	f.ip++
}

func (in *Interp) implements(t types.Type, it *types.Interface) bool {
	ms := in.prog.MethodSets.MethodSet(t)
	for i := 0; i < it.NumMethods(); i++ {
		m := it.Method(i)
		sel := ms.Lookup(m.Pkg(), m.Name())
		if sel == nil {
			return false
		}
		if !types.Identical(sel.Type(), m.Type()) {
			return false
		}
	}
	return true
}

// ---------- builtins ----------

func (in *Interp) callBuiltin(th *Thread, f *Frame, b *ssa.Builtin, args []Value, dst ssa.Value) (Value, bool) {
	switch b.Name() {
	case "len":
		switch x := args[0].(type) {
		case SliceV:
			return in.tb.Const(uint64(x.len), 64), true
		case StrV:
			return in.tb.Const(uint64(len(x.b)), 64), true
		case *MapObj:
			if x == nil {
				return in.tb.Const(0, 64), true
			}
			in.raceMap(x, false, f)
			return in.tb.Const(uint64(len(x.ents)), 64), true
		case *ChanObj:
			if x == nil {
				return in.tb.Const(0, 64), true
			}
			return in.tb.Const(uint64(len(x.buf)), 64), true
		case ArrayV:
			return in.tb.Const(uint64(len(x.e)), 64), true
		case Ptr:
			return in.tb.Const(uint64(len(x.c.kids)), 64), true
		}
	case "cap":
		switch x := args[0].(type) {
		case SliceV:
			return in.tb.Const(uint64(x.cap), 64), true
		case *ChanObj:
			if x == nil {
				return in.tb.Const(0, 64), true
			}
			return in.tb.Const(uint64(x.cap), 64), true
		case ArrayV:
			return in.tb.Const(uint64(len(x.e)), 64), true
		case Ptr:
			return in.tb.Const(uint64(len(x.c.kids)), 64), true
		}
	case "append":
		s := args[0].(SliceV)
		var et types.Type
		if dst != nil {
			et = dst.Type().Underlying().(*types.Slice).Elem()
		} else {
			panic(in.unsupported("append without destination"))
		}
		var src []Value
		switch y := args[1].(type) {
		case SliceV:
			for i := 0; i < y.len; i++ {
				in.raceCell(y.arr.kids[y.off+i], false, f)
				src = append(src, in.loadCell(y.arr.kids[y.off+i]))
			}
			if y.arr != nil {
				in.ghostAccess(y.arr, f)
			}
		case StrV:
			for _, t := range y.b {
				src = append(src, t)
			}
		default:
			panic(in.unsupported(fmt.Sprintf("append of %T", args[1])))
		}
		if len(src) == 0 {
			return s, true
		}
		need := s.len + len(src)
		if need <= s.cap {
			in.ghostAccess(s.arr, f)
			for i, v := range src {
				in.raceCell(s.arr.kids[s.off+s.len+i], true, f)
				in.storeCell(s.arr.kids[s.off+s.len+i], v)
			}
			return SliceV{arr: s.arr, off: s.off, len: need, cap: s.cap}, true
		}
		newcap := need
		if s.cap*2 > newcap && s.cap < 256 {
			newcap = s.cap * 2
		} else if s.cap >= 256 && s.cap+s.cap/4 > newcap {
			newcap = s.cap + s.cap/4
		}
		arr := in.newArrayCell(et, newcap, "append")
		for i := 0; i < s.len; i++ {
			in.raceCell(s.arr.kids[s.off+i], false, f)
			in.storeCell(arr.kids[i], in.loadCell(s.arr.kids[s.off+i]))
		}
		if s.arr != nil {
			in.ghostAccess(s.arr, f)
		}
		for i, v := range src {
			in.storeCell(arr.kids[s.len+i], v)
		}
		return SliceV{arr: arr, off: 0, len: need, cap: newcap}, true
	case "copy":
		d := args[0].(SliceV)
		var src []Value
		switch y := args[1].(type) {
		case SliceV:
			n := min(d.len, y.len)
			for i := 0; i < n; i++ {
				in.raceCell(y.arr.kids[y.off+i], false, f)
				src = append(src, in.loadCell(y.arr.kids[y.off+i]))
			}
			if y.arr != nil && n > 0 {
				in.ghostAccess(y.arr, f)
			}
		case StrV:
			n := min(d.len, len(y.b))
			for i := 0; i < n; i++ {
				src = append(src, y.b[i])
			}
		}
		if len(src) > 0 {
			in.ghostAccess(d.arr, f)
		}
		for i, v := range src {
			in.raceCell(d.arr.kids[d.off+i], true, f)
			in.storeCell(d.arr.kids[d.off+i], v)
		}
		return in.tb.Const(uint64(len(src)), 64), true
	case "delete":
		m := args[0].(*MapObj)
		if m != nil {
			in.raceMap(m, true, f)
			in.mapDelete(m, args[1])
		}
		return nil, true
	case "close":
		return in.chanClose(th, f, args[0].(*ChanObj))
	case "panic":
		in.goPanicVal(th, args[0], in.describePanic(args[0]))
		return nil, false
	case "recover":
		// effective only when called directly by a deferred function while its parent is panicking
		if len(th.frames) >= 2 {
			me := th.frames[len(th.frames)-1]
			parent := th.frames[len(th.frames)-2]
			if me.isDefer && parent.panicking && th.pan != nil {
				v := th.pan.val
				th.pan = nil
				return v, true
			}
		}
		return IfaceV{}, true
	case "print", "println":
		return nil, true
	case "min", "max":
		acc := in.intTerm(args[0])
		_, signed, _ := typeWidth(b.Type().(*types.Signature).Params().At(0).Type())
		for _, a := range args[1:] {
			y := in.intTerm(a)
			var lt *Term
			if signed {
				lt = in.tb.Cmp(OpSlt, acc, y)
			} else {
				lt = in.tb.Cmp(OpUlt, acc, y)
			}
			if b.Name() == "min" {
				acc = in.tb.Ite(lt, acc, y)
			} else {
				acc = in.tb.Ite(lt, y, acc)
			}
		}
		return acc, true
	case "clear":
		switch x := args[0].(type) {
		case *MapObj:
			if x != nil {
				x.ents = nil
				x.version++
			}
		case SliceV:
			for i := 0; i < x.len; i++ {
				k := x.arr.kids[x.off+i]
				in.storeCell(k, in.zero(k.t))
			}
		}
		return nil, true
	case "ssa:wrapnilchk":
		p, _ := args[0].(Ptr)
		if p.IsNil() {
			in.goPanic(th, "value method called using nil pointer")
			return nil, false
		}
		return args[0], true
	}
	panic(in.unsupported("builtin " + b.Name() + fmt.Sprintf(" on %T", args[0])))
}

// ---------- helpers ----------

func (in *Interp) isCoapFn(fn *ssa.Function) bool {
	p := fn.Pkg
	if p == nil && fn.Origin() != nil {
		p = fn.Origin().Pkg
	}
	if p == nil {
		// synthetic wrappers / instantiations: look at the name
		return strings.Contains(fn.String(), "plgd-dev/go-coap")
	}
	return in.coapPkgs[p]
}
