package main

import (
	"encoding/json"
	"flag"
	"fmt"
	"go/parser"
	"go/token"
	"os"
	"path/filepath"
	"runtime/pprof"
	"sort"
	"strings"
	"time"

	"golang.org/x/tools/go/packages"
	"golang.org/x/tools/go/ssa"
	"golang.org/x/tools/go/ssa/ssautil"
)

const modulePath = "github.com/plgd-dev/go-coap/v3"

type FuncSpec struct {
	Name    string                    `json:"name"`
	Tiers   []string                  `json:"tiers"`
	Params  map[string]map[string]int `json:"params"` // tier -> name -> value
	Cover   []string                  `json:"cover"`
	Preempt map[string]int            `json:"preempt"`
	Unwind  map[string]int            `json:"unwind"`
	Steps   map[string]int            `json:"steps"`
	MaxEnum map[string]int            `json:"maxenum"`
	MapAll  bool                      `json:"maporder_all"`
	NoNative bool                     `json:"no_native"`
	Race    []string                  `json:"race"` // package dirs whose code is watched by the data-race oracle (race.go)
	Expect  string                    `json:"expect"` // "" | "selftest-fail": litmus harness whose assertion must fail
	About   string                    `json:"about"`
}

type HarnessSpec struct {
	Pkg   string     `json:"pkg"`  // directory relative to the repo root
	File  string     `json:"file"` // harness file relative to /verif/harness
	Funcs []FuncSpec `json:"funcs"`
}

type Spec struct {
	Property  string            `json:"property"`
	Harnesses []HarnessSpec     `json:"harnesses"`
	Bounds    map[string]string `json:"bounds"`
	Outside   string            `json:"outside"`
	Assume    []string          `json:"assumptions"`
	Clock     []string          `json:"clock"` // package dirs whose time.Now() calls are rewritten for native replay
	Ghost     bool              `json:"ghost"` // instrument message/pool natively with the ownership ghost state
	Sched     []string          `json:"sched"` // package dirs instrumented with scheduling points for native schedule replay
	// Stale lists harness functions whose file no longer type-checks against the current tree (an internal
	// signature the harness calls was changed): they are dropped, reported, and make the run inconclusive
	Stale []string `json:"-"`
}

type KnownFinding struct {
	Property string `json:"property"`
	ID       string `json:"id"`
	Status   string `json:"status"` // known | fixed
	Harness  string `json:"harness,omitempty"`
	Label    string `json:"label,omitempty"`
	Region   string `json:"region,omitempty"`
	What     string `json:"what"`
	Commit   string `json:"commit,omitempty"`
}

func main() {
	if len(os.Args) < 2 {
		fmt.Fprintln(os.Stderr, "usage: gosym run|selftest ...")
		os.Exit(2)
	}
	switch os.Args[1] {
	case "run":
		rc := cmdRun(os.Args[2:])
		pprof.StopCPUProfile()
		os.Exit(rc)
	case "version":
		fmt.Println("gosym 1")
	default:
		fmt.Fprintln(os.Stderr, "unknown command")
		os.Exit(2)
	}
}

type loaded struct {
	prog  *ssa.Program
	pkgs  map[string]*ssa.Package // by repo-relative dir
	coap  map[*ssa.Package]bool
	dur   time.Duration
	names map[string]string // dir -> package name
	byDir map[string]*packages.Package
}

func pkgNameOf(file string) (string, error) {
	fset := token.NewFileSet()
	f, err := parser.ParseFile(fset, file, nil, parser.PackageClauseOnly)
	if err != nil {
		return "", err
	}
	return f.Name.Name, nil
}

func loadProgram(repo, verif string, spec *Spec, syntaxOnly bool) (*loaded, error) {
	start := time.Now()
	var initial []*packages.Package
	names := map[string]string{}
	for attempt := 0; ; attempt++ {
		overlay := map[string][]byte{}
		var patterns []string
		names = map[string]string{}
		seenDir := map[string]bool{}
		virt := map[string]int{} // virtual harness path -> index in spec.Harnesses
		for i, h := range spec.Harnesses {
			src := filepath.Join(verif, "harness", h.File)
			data, err := os.ReadFile(src)
			if err != nil {
				return nil, err
			}
			name, err := pkgNameOf(src)
			if err != nil {
				return nil, err
			}
			dir := filepath.Join(repo, h.Pkg)
			vp := filepath.Join(dir, "zz_verif_h_"+filepath.Base(h.File))
			overlay[vp] = data
			virt[vp] = i
			if !seenDir[h.Pkg] {
				seenDir[h.Pkg] = true
				overlay[filepath.Join(dir, "zz_verif_sym.go")] = []byte(symDecls(name, false))
				p := modulePath
				if h.Pkg != "." && h.Pkg != "" {
					p += "/" + h.Pkg
				}
				patterns = append(patterns, p)
				names[h.Pkg] = name
			}
		}
		cfg := &packages.Config{
			Mode:    packages.LoadAllSyntax,
			Dir:     repo,
			Overlay: overlay,
			Env:     append(os.Environ(), "GOFLAGS=-mod=mod", "GOPROXY=off"),
		}
		var err error
		initial, err = packages.Load(cfg, patterns...)
		if err != nil {
			return nil, err
		}
		nerr := 0
		stale := map[int]string{}
		foreign := 0
		packages.Visit(initial, nil, func(p *packages.Package) {
			for _, e := range p.Errors {
				if strings.HasPrefix(p.PkgPath, modulePath) {
					nerr++
					file := e.Pos
					if k := strings.Index(file, ":"); k >= 0 {
						file = file[:k]
					}
					if i, ok := virt[file]; ok {
						if _, seen := stale[i]; !seen {
							stale[i] = e.Error()
						}
					} else {
						fmt.Fprintf(os.Stderr, "load error in %s: %v\n", p.PkgPath, e)
						foreign++
					}
				}
			}
		})
		if nerr == 0 {
			break
		}
		if foreign > 0 || len(stale) == 0 || attempt > 8 {
			for i, msg := range stale {
				fmt.Fprintf(os.Stderr, "load error in harness %s: %s\n", spec.Harnesses[i].File, msg)
			}
			return nil, fmt.Errorf("%d load errors in go-coap packages (does /repo compile?)", nerr)
		}
		// the repository compiles but some harness files do not (an internal function they call changed its
		// signature): drop those files, remember their functions, and load again
		var keep []HarnessSpec
		for i, h := range spec.Harnesses {
			if msg, bad := stale[i]; bad {
				fmt.Fprintf(os.Stderr, "harness %s does not compile against the current tree and is dropped: %s\n", h.File, msg)
				for _, f := range h.Funcs {
					spec.Stale = append(spec.Stale, fmt.Sprintf("%s (%s): %s", f.Name, h.File, msg))
				}
				if len(h.Funcs) == 0 {
					spec.Stale = append(spec.Stale, fmt.Sprintf("helpers in %s: %s", h.File, msg))
				}
				continue
			}
			keep = append(keep, h)
		}
		spec.Harnesses = keep
	}
	byDir := map[string]*packages.Package{}
	packages.Visit(initial, nil, func(p *packages.Package) {
		if strings.HasPrefix(p.PkgPath, modulePath) {
			rel := strings.TrimPrefix(strings.TrimPrefix(p.PkgPath, modulePath), "/")
			if rel == "" {
				rel = "."
			}
			byDir[rel] = p
		} else {
			byDir[p.PkgPath] = p
		}
	})
	if syntaxOnly {
		return &loaded{byDir: byDir, names: names}, nil
	}
	prog, _ := ssautil.AllPackages(initial, ssa.InstantiateGenerics)
	prog.Build()
	ld := &loaded{prog: prog, pkgs: map[string]*ssa.Package{}, coap: map[*ssa.Package]bool{}, names: names, byDir: byDir}
	for _, p := range prog.AllPackages() {
		if contains(spec.Sched, p.Pkg.Path()) {
			ld.coap[p] = true // dependency instrumented for schedule replay: its synchronisation is visible
		}
		if strings.HasPrefix(p.Pkg.Path(), modulePath) {
			ld.coap[p] = true
			rel := strings.TrimPrefix(strings.TrimPrefix(p.Pkg.Path(), modulePath), "/")
			if rel == "" {
				rel = "."
			}
			ld.pkgs[rel] = p
		}
	}
	ld.dur = time.Since(start)
	return ld, nil
}

func contains(xs []string, s string) bool {
	for _, x := range xs {
		if x == s {
			return true
		}
	}
	return false
}

func cmdRun(args []string) int {
	fs := flag.NewFlagSet("run", flag.ExitOnError)
	repo := fs.String("repo", "/repo", "repository root")
	verif := fs.String("verif", "/verif", "verification root")
	specPath := fs.String("spec", "", "check specification (checks/<id>.json)")
	tier := fs.String("tier", "quick", "quick|thorough")
	only := fs.String("only", "", "run only this harness function")
	workers := fs.Int("workers", 12, "parallel workers")
	debug := fs.Bool("debug", false, "debug output")
	trace := fs.Bool("trace", false, "trace instructions")
	noNative := fs.Bool("no-native", false, "skip native cross-validation and replay")
	evidenceOut := fs.String("evidence", "", "evidence file (default evidence/<property>.json)")
	maxPaths := fs.Int("maxpaths", 0, "stop after this many paths (0 = no limit)")
	solver := fs.String("solver", "z3", "primary solver")
	sites := fs.Bool("sites", false, "report decision sites")
	cpuprof := fs.String("cpuprofile", "", "write CPU profile")
	pathFlag := fs.String("path", "", "run only this decision list (comma separated), with -debug")
	fs.Parse(args)
	if *cpuprof != "" {
		f, _ := os.Create(*cpuprof)
		pprof.StartCPUProfile(f)
		defer pprof.StopCPUProfile()
	}

	start := time.Now()
	data, err := os.ReadFile(*specPath)
	if err != nil {
		fmt.Fprintln(os.Stderr, err)
		return 2
	}
	var spec Spec
	if err := json.Unmarshal(data, &spec); err != nil {
		fmt.Fprintln(os.Stderr, "spec:", err)
		return 2
	}
	seed := int64(0)
	if s := os.Getenv("VERIF_SEED"); s != "" {
		fmt.Sscan(s, &seed)
	}
	known := map[string]bool{}
	var knownList []KnownFinding
	if kd, err := os.ReadFile(filepath.Join(*verif, "known_findings.json")); err == nil {
		if err := json.Unmarshal(kd, &knownList); err != nil {
			fmt.Fprintln(os.Stderr, "known_findings.json:", err)
			return 2
		}
		for _, k := range knownList {
			if k.Status == "known" && k.Property == spec.Property {
				known[k.ID] = true
			}
		}
	}

	ld, err := loadProgram(*repo, *verif, &spec, false)
	if err != nil {
		fmt.Fprintln(os.Stderr, "load:", err)
		return 2
	}
	fmt.Printf("loaded %d packages, SSA built in %.1fs\n", len(ld.prog.AllPackages()), ld.dur.Seconds())

	rep := &Report{Spec: &spec, Tier: *tier, Seed: seed, Start: start, Repo: *repo, Verif: *verif, KnownList: knownList}
	for _, h := range spec.Harnesses {
		pkg := ld.pkgs[h.Pkg]
		if pkg == nil {
			fmt.Fprintf(os.Stderr, "package %s not loaded\n", h.Pkg)
			return 2
		}
		for _, fsp := range h.Funcs {
			if len(fsp.Tiers) > 0 && !contains(fsp.Tiers, *tier) {
				continue
			}
			if *only != "" && fsp.Name != *only {
				continue
			}
			fn := pkg.Func(fsp.Name)
			if fn == nil {
				fmt.Fprintf(os.Stderr, "harness %s not found in %s\n", fsp.Name, h.Pkg)
				return 2
			}
			cfg := Config{StepLimit: 3000000, SymUnwind: 64, MaxEnum: 300, Preempt: 2, Solver: *solver, TimeoutMs: 20000, Debug: *debug, Trace: *trace, MaxPaths: *maxPaths, MapOrderAll: fsp.MapAll, Sites: *sites, Race: fsp.Race}
			if *tier == "thorough" {
				cfg.Solver2 = "cvc5"
				cfg.TimeoutMs = 120000
				cfg.Preempt = 3
			}
			if v, ok := fsp.Preempt[*tier]; ok {
				cfg.Preempt = v
			}
			if v, ok := fsp.Unwind[*tier]; ok {
				cfg.SymUnwind = v
			}
			if v, ok := fsp.Steps[*tier]; ok {
				cfg.StepLimit = v
			}
			if v, ok := fsp.MaxEnum[*tier]; ok {
				cfg.MaxEnum = v
			}
			eng := &Engine{prog: ld.prog, coapPkgs: ld.coap, cfg: cfg, params: fsp.Params[*tier], knownIDs: known, workers: *workers, seed: seed}
			if *debug || *trace {
				eng.workers = 1
			}
			if *pathFlag != "" {
				var prefix []int
				for _, x := range strings.Split(*pathFlag, ",") {
					var v int
					fmt.Sscan(x, &v)
					prefix = append(prefix, v)
				}
				in, err := eng.newInterp()
				if err != nil {
					fmt.Fprintln(os.Stderr, err)
					return 2
				}
				res := in.runPath(fn, prefix)
				fmt.Printf("outcome=%s msg=%s sched=%v asserts=%v\n", res.Outcome, res.Msg, res.Sched, res.Asserts)
				return 0
			}
			st, err := eng.Explore(fn)
			if err != nil {
				fmt.Fprintln(os.Stderr, "explore:", err)
				return 2
			}
			if *sites {
				for _, k := range sortedKeys(st.Notes) {
					if strings.HasPrefix(k, "site:") {
						fmt.Printf("  %6d %s\n", st.Notes[k], k)
					}
				}
			}
			hr := &HarnessRun{Spec: fsp, HSpec: h, Stats: st, Cfg: cfg, PkgName: ld.names[h.Pkg], Params: fsp.Params[*tier]}
			rep.Runs = append(rep.Runs, hr)
			fmt.Printf("%-40s paths=%d feasible=%d obligations=%d/%d outcomes=%v wall=%.1fs solverq=%d solver=%.1fs\n", fsp.Name, st.Paths, st.Feasible, st.Discharged, st.Obligations, fmtOutcomes(st.Outcomes), st.Wall.Seconds(), st.SolverQ, st.SolverT.Seconds())
		}
	}
	if len(rep.Runs) == 0 {
		fmt.Fprintln(os.Stderr, "no harness selected")
		return 2
	}
	if !*noNative {
		if err := rep.nativePhase(); err != nil {
			fmt.Fprintln(os.Stderr, "native phase:", err)
			rep.NativeErr = err.Error()
		}
	} else {
		rep.NativeSkipped = true
	}
	out := *evidenceOut
	if out == "" {
		out = filepath.Join(*verif, "evidence", spec.Property+".json")
	}
	return rep.finish(out, *only != "")
}

func fmtOutcomes(m map[string]int) string {
	var ks []string
	for k := range m {
		ks = append(ks, k)
	}
	sort.Strings(ks)
	var sb strings.Builder
	for _, k := range ks {
		fmt.Fprintf(&sb, "%s:%d ", k, m[k])
	}
	return strings.TrimSpace(sb.String())
}
