package main

import (
	"fmt"
	"go/types"

	"golang.org/x/tools/go/ssa"
)

// TypeHandle is the model of a reflect.Type value (only what pkg/math needs).
type TypeHandle struct{ t types.Type }

func (in *Interp) ghostAccess(c *Cell, f *Frame) {
	if !in.ghostOn || c == nil || c.obj == nil || !c.obj.released {
		return
	}
	if f != nil && in.isPoolInternal(f.fn) {
		return
	}
	in.ghostViolation("use of pooled message after release")
}

func (in *Interp) isPoolInternal(fn *ssa.Function) bool {
	return false
}

func (in *Interp) ghostViolation(msg string) {
	in.asserts = append(in.asserts, AssertRec{Label: "ghost: " + msg, Failed: true, Model: in.completeModel(in.anyModel())})
}

func (in *Interp) anyModel() Model {
	m, r := in.modelFor(in.tb.T)
	if r != Sat {
		return Model{}
	}
	return m
}

func (in *Interp) initStubs2() {
	s := in.stubs
	tb := in.tb
	s["reflect.TypeOf"] = func(in *Interp, th *Thread, fn *ssa.Function, a []Value) (Value, stubStatus) {
		iv := a[0].(IfaceV)
		rt := in.prog.ImportedPackage("reflect").Type("rtype").Type()
		return IfaceV{t: types.NewPointer(rt), v: TypeHandle{iv.t}}, stDone
	}
	s["(*reflect.rtype).Elem"] = func(in *Interp, th *Thread, fn *ssa.Function, a []Value) (Value, stubStatus) {
		h := a[0].(TypeHandle)
		rt := in.prog.ImportedPackage("reflect").Type("rtype").Type()
		switch u := h.t.Underlying().(type) {
		case *types.Pointer:
			return IfaceV{t: types.NewPointer(rt), v: TypeHandle{u.Elem()}}, stDone
		case *types.Slice:
			return IfaceV{t: types.NewPointer(rt), v: TypeHandle{u.Elem()}}, stDone
		}
		panic(in.unsupported("reflect Elem of " + h.t.String()))
	}
	s["(*reflect.rtype).Kind"] = func(in *Interp, th *Thread, fn *ssa.Function, a []Value) (Value, stubStatus) {
		h := a[0].(TypeHandle)
		b, ok := h.t.Underlying().(*types.Basic)
		if !ok {
			panic(in.unsupported("reflect Kind of " + h.t.String()))
		}
		// reflect.Kind numbering: Bool=1, Int=2, Int8..Int64=3..6, Uint=7, Uint8..Uint64=8..11, Uintptr=12
		k := map[types.BasicKind]uint64{types.Bool: 1, types.Int: 2, types.Int8: 3, types.Int16: 4, types.Int32: 5, types.Int64: 6,
			types.Uint: 7, types.Uint8: 8, types.Uint16: 9, types.Uint32: 10, types.Uint64: 11, types.Uintptr: 12, types.String: 24}[b.Kind()]
		return tb.Const(k, 64), stDone
	}
	s["math/rand.NewSource"] = func(in *Interp, th *Thread, fn *ssa.Function, a []Value) (Value, stubStatus) {
		return IfaceV{}, stDone
	}
	s["(*math/rand.Rand).Uint32"] = func(in *Interp, th *Thread, fn *ssa.Function, a []Value) (Value, stubStatus) {
		return in.freshInput("mathrand", 32), stDone
	}
	s["(*math/rand.Rand).Int63"] = func(in *Interp, th *Thread, fn *ssa.Function, a []Value) (Value, stubStatus) {
		return tb.ZExt(in.freshInput("mathrand", 62), 64), stDone
	}
	s["time.Unix"] = func(in *Interp, th *Thread, fn *ssa.Function, a []Value) (Value, stubStatus) {
		sec := in.intTerm(a[0])
		if !(sec.op == OpConst && sec.val == 0) {
			panic(in.unsupported("time.Unix with non-zero seconds"))
		}
		return in.timeVal(in.intTerm(a[1])), stDone
	}
}

// summarize evaluates a side-effect-free harness function (name prefix zzPure) on symbolic arguments by exploring
// all of its internal paths and merging the results into one ite value, so that the caller's path does not fork.
func (in *Interp) summarize(th *Thread, fv FuncV, args []Value) Value {
	// with scalar arguments only, the summary is computed under an empty path condition and cached per worker
	key := fv.fn.String()
	scalar := len(fv.bind) == 0
	for _, a := range args {
		t, ok := a.(*Term)
		if !ok {
			scalar = false
			break
		}
		key += fmt.Sprintf(",%d", t.id)
	}
	if scalar {
		if v, ok := in.pureCache[key]; ok {
			return v
		}
		outerPC, outerList, outerLits := in.pc, in.pcList, in.litLog
		outerSet, outerEq := in.pcSet, in.eqConst
		in.pc, in.pcList, in.litLog, in.pcSet, in.eqConst = in.tb.T, nil, nil, map[*Term]bool{}, map[*Term]*Term{}
		defer func() {
			in.pc, in.pcList, in.litLog, in.pcSet, in.eqConst = outerPC, outerList, outerLits, outerSet, outerEq
		}()
	}
	v := in.summarize1(th, fv, args)
	if scalar {
		in.pureCache[key] = v
	}
	return v
}

func (in *Interp) summarize1(th *Thread, fv FuncV, args []Value) Value {
	savedPC, savedList := in.pc, len(in.pcList)
	savedDec, savedPrefix := in.dec, in.prefix
	savedSteps := in.loopBoundOverride
	savedLits := len(in.litLog)
	type res struct {
		cond *Term
		v    Value
	}
	var results []res
	depth := len(th.frames)
	var local []int
	for iter := 0; ; iter++ {
		if iter > 4096 {
			panic(in.unsupported("zzPure function has more than 4096 paths"))
		}
		in.pc = savedPC
		in.pcList = in.pcList[:savedList]
		in.restoreLits(savedLits)
		in.dec = nil
		in.prefix = local
		var v Value
		ok := func() (ok bool) {
			defer func() {
				if r := recover(); r != nil {
					if ab, isAb := r.(abort); isAb && ab.kind == abInfeasible {
						th.frames = th.frames[:depth]
						ok = false
						return
					}
					panic(r)
				}
			}()
			v = in.callSync(th, fv, args)
			return true
		}()
		if ok {
			cond := in.tb.T
			for _, c := range in.pcList[savedList:] {
				cond = in.tb.BAnd(cond, c)
			}
			results = append(results, res{cond, v})
		}
		// next local prefix
		i := len(in.dec) - 1
		for i >= 0 && in.dec[i].Taken+1 >= in.dec[i].N {
			i--
		}
		if i < 0 {
			break
		}
		nl := make([]int, i+1)
		for j := 0; j < i; j++ {
			nl[j] = in.dec[j].Taken
		}
		nl[i] = in.dec[i].Taken + 1
		local = nl
	}
	in.pc = savedPC
	in.pcList = in.pcList[:savedList]
	in.restoreLits(savedLits)
	in.dec, in.prefix = savedDec, savedPrefix
	in.loopBoundOverride = savedSteps
	if len(results) == 0 {
		panic(abort{abInfeasible, "zzPure function has no feasible path"})
	}
	merged := results[len(results)-1].v
	for i := len(results) - 2; i >= 0; i-- {
		m, ok := in.iteValue(results[i].cond, results[i].v, merged)
		if !ok {
			panic(in.unsupported("zzPure function result cannot be merged"))
		}
		merged = m
	}
	return merged
}
