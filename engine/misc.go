package main

import (
	"fmt"
	"regexp"
	"strings"
	"go/token"
	"go/types"
	"hash/crc64"

	"golang.org/x/tools/go/ssa"
)

// TypeHandle is the model of a reflect.Type value (only what pkg/math needs).
type TypeHandle struct{ t types.Type }

func (in *Interp) ghostAccess(c *Cell, f *Frame) {
	if !in.ghostOn || c == nil || c.obj == nil || !c.obj.released {
		return
	}
	if f != nil && in.isPoolInternal(f.fn) {
		return
	}
	if in.cur != nil {
		// an access made on behalf of a pool method (sync/atomic helpers called by it) is the pool's own
		for _, fr := range in.cur.frames {
			if in.isPoolInternal(fr.fn) {
				return
			}
		}
	}
	in.ghostViolation("use of pooled message after release")
}

func (in *Interp) isPoolInternal(fn *ssa.Function) bool {
	p := fn.Pkg
	if p == nil && fn.Origin() != nil {
		p = fn.Origin().Pkg
	}
	if p == nil {
		return false
	}
	return p.Pkg.Path() == modulePath+"/message/pool"
}

// ghostCall implements the ownership ghost state of pooled messages (C12) at method granularity: a message is
// marked released when (*Pool).ReleaseMessage returns and unmarked when (*Pool).AcquireMessage hands it out;
// calling any method of a released message from outside package pool, or releasing it again, is a violation.
func (in *Interp) ghostCall(th *Thread, fn *ssa.Function, args []Value) {
	if !in.ghostOn || !in.isPoolInternal(fn) || fn.Signature.Recv() == nil || len(args) == 0 {
		return
	}
	rt := fn.Signature.Recv().Type().String()
	callerInPool := false // inside (*Pool).ReleaseMessage (which resets the message it is releasing)
	for _, fr := range th.frames {
		if fr.fn.Name() == "ReleaseMessage" && in.isPoolInternal(fr.fn) {
			callerInPool = true
		}
	}
	switch {
	case strings.HasSuffix(rt, "pool.Pool") && fn.Name() == "ReleaseMessage" && len(args) > 1:
		if p, ok := args[1].(Ptr); ok && p.c != nil && p.c.obj != nil && p.c.obj.released {
			in.ghostViolation("ghost: pooled message released twice without being re-acquired")
		}
	case strings.HasSuffix(rt, "pool.Message") && !callerInPool && fn.Name() != "IsHijacked":
		// IsHijacked only reads the atomic ownership-transfer flag, which is not part of the recycled content and
		// survives Reset: the receive path consults it to learn whether it still owns the message at all
		if p, ok := args[0].(Ptr); ok && p.c != nil && p.c.obj != nil && p.c.obj.released {
			in.ghostViolation("ghost: pooled message used after release")
		}
	}
}

// ghostReturn is called when a pool function returns.
func (in *Interp) ghostReturn(fn *ssa.Function, f *Frame) {
	if in.cfg.Debug && in.isPoolInternal(fn) {
		fmt.Printf("  [ghost] return %s ghostOn=%v\n", fn.String(), in.ghostOn)
	}
	if !in.ghostOn || !in.isPoolInternal(fn) || fn.Signature.Recv() == nil {
		return
	}
	rt := fn.Signature.Recv().Type().String()
	if !strings.HasSuffix(rt, "pool.Pool") {
		return
	}
	switch fn.Name() {
	case "ReleaseMessage":
		if len(fn.Params) > 1 {
			if p, ok := f.env[fn.Params[1]].(Ptr); ok && p.c != nil && p.c.obj != nil {
				p.c.obj.released = true
			}
		}
	case "AcquireMessage":
		if p, ok := f.result.(Ptr); ok && p.c != nil && p.c.obj != nil {
			p.c.obj.released = false
		}
	}
}

func (in *Interp) ghostViolation(msg string) {
	if in.cfg.Debug && in.cur != nil {
		fmt.Printf("  [ghost-violation] %s in T%d:", msg, in.cur.id)
		for i := len(in.cur.frames) - 1; i >= 0 && i >= len(in.cur.frames)-8; i-- {
			fr := in.cur.frames[i]
			pos := ""
			if fr.block != nil && fr.ip < len(fr.block.Instrs) {
				pos = in.fset.Position(fr.block.Instrs[fr.ip].Pos()).String()
			}
			fmt.Printf(" <- %s (%s)", fr.fn.Name(), pos)
		}
		fmt.Println()
	}
	for _, a := range in.asserts {
		if a.Label == msg {
			return
		}
	}
	in.asserts = append(in.asserts, AssertRec{Label: msg, Failed: true, Model: in.completeModel(in.anyModel())})
}

func (in *Interp) anyModel() Model {
	m, r := in.modelFor(in.tb.T)
	if r != Sat {
		return Model{}
	}
	return m
}

func (in *Interp) initStubs2() {
	in.initRegexpStubs()
	s := in.stubs
	tb := in.tb
	s["reflect.TypeOf"] = func(in *Interp, th *Thread, fn *ssa.Function, a []Value) (Value, stubStatus) {
		iv := a[0].(IfaceV)
		rt := in.prog.ImportedPackage("reflect").Type("rtype").Type()
		return IfaceV{t: types.NewPointer(rt), v: TypeHandle{iv.t}}, stDone
	}
	s["(*reflect.rtype).Elem"] = func(in *Interp, th *Thread, fn *ssa.Function, a []Value) (Value, stubStatus) {
		h := a[0].(TypeHandle)
		rt := in.prog.ImportedPackage("reflect").Type("rtype").Type()
		switch u := h.t.Underlying().(type) {
		case *types.Pointer:
			return IfaceV{t: types.NewPointer(rt), v: TypeHandle{u.Elem()}}, stDone
		case *types.Slice:
			return IfaceV{t: types.NewPointer(rt), v: TypeHandle{u.Elem()}}, stDone
		}
		panic(in.unsupported("reflect Elem of " + h.t.String()))
	}
	s["(*reflect.rtype).Kind"] = func(in *Interp, th *Thread, fn *ssa.Function, a []Value) (Value, stubStatus) {
		h := a[0].(TypeHandle)
		b, ok := h.t.Underlying().(*types.Basic)
		if !ok {
			panic(in.unsupported("reflect Kind of " + h.t.String()))
		}
		// reflect.Kind numbering: Bool=1, Int=2, Int8..Int64=3..6, Uint=7, Uint8..Uint64=8..11, Uintptr=12
		k := map[types.BasicKind]uint64{types.Bool: 1, types.Int: 2, types.Int8: 3, types.Int16: 4, types.Int32: 5, types.Int64: 6,
			types.Uint: 7, types.Uint8: 8, types.Uint16: 9, types.Uint32: 10, types.Uint64: 11, types.Uintptr: 12, types.String: 24}[b.Kind()]
		return tb.Const(k, 64), stDone
	}
	s["hash/crc64.update"] = func(in *Interp, th *Thread, fn *ssa.Function, a []Value) (Value, stubStatus) {
		crc := in.intTerm(a[0])
		bs := in.sliceBytes(a[2].(SliceV))
		if crc.op != OpConst {
			panic(in.unsupported("crc64 update with symbolic state"))
		}
		conc := make([]byte, len(bs))
		for i, b := range bs {
			if b.op != OpConst {
				panic(in.unsupported("crc64 update over symbolic bytes"))
			}
			conc[i] = byte(b.val)
		}
		return tb.Const(crc64.Update(crc.val, crcISO, conc), 64), stDone
	}
	s["math/rand.NewSource"] = func(in *Interp, th *Thread, fn *ssa.Function, a []Value) (Value, stubStatus) {
		return IfaceV{}, stDone
	}
	s["(*math/rand.Rand).Uint32"] = func(in *Interp, th *Thread, fn *ssa.Function, a []Value) (Value, stubStatus) {
		return in.freshInput("mathrand", 32), stDone
	}
	s["(*math/rand.Rand).Int63"] = func(in *Interp, th *Thread, fn *ssa.Function, a []Value) (Value, stubStatus) {
		return tb.ZExt(in.freshInput("mathrand", 62), 64), stDone
	}
	s["time.Unix"] = func(in *Interp, th *Thread, fn *ssa.Function, a []Value) (Value, stubStatus) {
		sec := in.intTerm(a[0])
		if !(sec.op == OpConst && sec.val == 0) {
			panic(in.unsupported("time.Unix with non-zero seconds"))
		}
		return in.timeVal(in.intTerm(a[1])), stDone
	}
}

// summarize evaluates a side-effect-free harness function (name prefix zzPure) on symbolic arguments by exploring
// all of its internal paths and merging the results into one ite value, so that the caller's path does not fork.
func (in *Interp) summarize(th *Thread, fv FuncV, args []Value) Value {
	// with scalar arguments only, the summary is computed under an empty path condition and cached per worker
	key := fv.fn.String()
	scalar := len(fv.bind) == 0
	for _, a := range args {
		t, ok := a.(*Term)
		if !ok {
			scalar = false
			break
		}
		key += fmt.Sprintf(",%d", t.id)
	}
	if scalar {
		if v, ok := in.pureCache[key]; ok {
			return v
		}
		outerPC, outerList, outerLits := in.pc, in.pcList, in.litLog
		outerSet, outerEq := in.pcSet, in.eqConst
		in.pc, in.pcList, in.litLog, in.pcSet, in.eqConst = in.tb.T, nil, nil, map[*Term]bool{}, map[*Term]*Term{}
		defer func() {
			in.pc, in.pcList, in.litLog, in.pcSet, in.eqConst = outerPC, outerList, outerLits, outerSet, outerEq
		}()
	}
	v := in.summarize1(th, fv, args)
	if scalar {
		in.pureCache[key] = v
	}
	return v
}

func (in *Interp) summarize1(th *Thread, fv FuncV, args []Value) Value {
	savedPC, savedList := in.pc, len(in.pcList)
	savedDec, savedPrefix := in.dec, in.prefix
	savedSteps := in.loopBoundOverride
	savedLits := len(in.litLog)
	type res struct {
		cond *Term
		v    Value
	}
	var results []res
	depth := len(th.frames)
	var local []int
	for iter := 0; ; iter++ {
		if iter > 4096 {
			panic(in.unsupported("zzPure function has more than 4096 paths"))
		}
		in.pc = savedPC
		in.pcList = in.pcList[:savedList]
		in.restoreLits(savedLits)
		in.dec = nil
		in.prefix = local
		var v Value
		ok := func() (ok bool) {
			defer func() {
				if r := recover(); r != nil {
					if ab, isAb := r.(abort); isAb && ab.kind == abInfeasible {
						th.frames = th.frames[:depth]
						ok = false
						return
					}
					panic(r)
				}
			}()
			v = in.callSync(th, fv, args)
			return true
		}()
		if ok {
			cond := in.tb.T
			for _, c := range in.pcList[savedList:] {
				cond = in.tb.BAnd(cond, c)
			}
			results = append(results, res{cond, v})
		}
		// next local prefix
		i := len(in.dec) - 1
		for i >= 0 && in.dec[i].Taken+1 >= in.dec[i].N {
			i--
		}
		if i < 0 {
			break
		}
		nl := make([]int, i+1)
		for j := 0; j < i; j++ {
			nl[j] = in.dec[j].Taken
		}
		nl[i] = in.dec[i].Taken + 1
		local = nl
	}
	in.pc = savedPC
	in.pcList = in.pcList[:savedList]
	in.restoreLits(savedLits)
	in.dec, in.prefix = savedDec, savedPrefix
	in.loopBoundOverride = savedSteps
	if len(results) == 0 {
		panic(abort{abInfeasible, "zzPure function has no feasible path"})
	}
	merged := results[len(results)-1].v
	for i := len(results) - 2; i >= 0; i-- {
		m, ok := in.iteValue(results[i].cond, results[i].v, merged)
		if !ok {
			panic(in.unsupported("zzPure function result cannot be merged"))
		}
		merged = m
	}
	return merged
}

// ---- if-conversion: small side-effect-free triangles/diamonds on a symbolic condition are merged into ite
// values instead of forking the path ----

func pureBlock(b *ssa.BasicBlock) bool {
	if len(b.Preds) != 1 || len(b.Instrs) == 0 || len(b.Instrs) > 12 {
		return false
	}
	for i, ins := range b.Instrs {
		if i == len(b.Instrs)-1 {
			_, ok := ins.(*ssa.Jump)
			return ok
		}
		switch x := ins.(type) {
		case *ssa.BinOp:
			if x.Op == token.QUO || x.Op == token.REM {
				return false
			}
		case *ssa.UnOp:
			if x.Op == token.MUL || x.Op == token.ARROW {
				return false
			}
		case *ssa.Convert:
			if _, _, ok := typeWidth(x.X.Type()); !ok {
				return false
			}
			if _, _, ok := typeWidth(x.Type()); !ok {
				return false
			}
		case *ssa.ChangeType, *ssa.Extract, *ssa.Field, *ssa.DebugRef:
		default:
			return false
		}
	}
	return false
}

func (in *Interp) runPure(f *Frame, b *ssa.BasicBlock) {
	for _, ins := range b.Instrs[:len(b.Instrs)-1] {
		switch x := ins.(type) {
		case *ssa.BinOp:
			f.env[x] = in.binop(x.Op, x.X.Type(), in.get(f, x.X), in.get(f, x.Y), x.Y.Type())
		case *ssa.UnOp:
			f.env[x] = in.unop(x, in.get(f, x.X))
		case *ssa.Convert:
			f.env[x] = in.convert(x.X.Type(), x.Type(), in.get(f, x.X))
		case *ssa.ChangeType:
			f.env[x] = in.get(f, x.X)
		case *ssa.Extract:
			f.env[x] = in.get(f, x.Tuple).(TupleV)[x.Index]
		case *ssa.Field:
			f.env[x] = in.get(f, x.X).(StructV).f[x.Field]
		}
	}
}

// tryIfConvert handles `if c {pure}` / `if c {pure} else {pure}` joins; returns false if the shape does not apply.
func (in *Interp) tryIfConvert(f *Frame, c *Term) bool {
	b := f.block
	t, e := b.Succs[0], b.Succs[1]
	var join *ssa.BasicBlock
	var fromT, fromE *ssa.BasicBlock // predecessor of join on the true / false side
	switch {
	case pureBlock(t) && t.Succs[0] == e:
		join, fromT, fromE = e, t, b
	case pureBlock(e) && e.Succs[0] == t:
		join, fromT, fromE = t, b, e
	case pureBlock(t) && pureBlock(e) && t.Succs[0] == e.Succs[0]:
		join, fromT, fromE = t.Succs[0], t, e
	default:
		return false
	}
	if fromT == fromE {
		return false
	}
	// the join must distinguish the two edges
	it, ie := -1, -1
	for i, p := range join.Preds {
		if p == fromT {
			if it >= 0 {
				return false
			}
			it = i
		}
		if p == fromE {
			if ie >= 0 {
				return false
			}
			ie = i
		}
	}
	if it < 0 || ie < 0 {
		return false
	}
	if fromT != b {
		in.runPure(f, fromT)
	}
	if fromE != b {
		in.runPure(f, fromE)
	}
	var phis []*ssa.Phi
	var vals []Value
	for _, ins := range join.Instrs {
		phi, ok := ins.(*ssa.Phi)
		if !ok {
			break
		}
		m, ok := in.iteValue(c, in.get(f, phi.Edges[it]), in.get(f, phi.Edges[ie]))
		if !ok {
			return false
		}
		phis = append(phis, phi)
		vals = append(vals, m)
	}
	for i, phi := range phis {
		f.env[phi] = vals[i]
	}
	f.prev = b
	f.block = join
	f.ip = len(phis)
	return true
}

// ---- regexp: evaluated by the host's regexp package on concrete strings (never symbolic) ----

func (in *Interp) initRegexpStubs() {
	s := in.stubs
	tb := in.tb
	conc := func(v Value, what string) string {
		str, ok := v.(StrV).concrete()
		if !ok {
			panic(in.unsupported("regexp on symbolic string (" + what + ")"))
		}
		return str
	}
	compile := func(in *Interp, fn *ssa.Function, a []Value) (Value, error) {
		expr := conc(a[0], "pattern")
		re, err := regexp.Compile(expr)
		if err != nil {
			return Ptr{}, err
		}
		rt := fn.Signature.Results().At(0).Type().(*types.Pointer).Elem()
		c := in.newCell(rt, in.newObject(rt, "regexp "+expr))
		in.hostRegexps[c] = re
		return Ptr{c: c}, nil
	}
	s["regexp.Compile"] = func(in *Interp, th *Thread, fn *ssa.Function, a []Value) (Value, stubStatus) {
		in.note("model:regexp-evaluated-by-host-on-concrete-strings")
		p, err := compile(in, fn, a)
		if err != nil {
			return TupleV{Ptr{}, in.sentinelError("regexp.Compile:" + err.Error())}, stDone
		}
		return TupleV{p, IfaceV{}}, stDone
	}
	s["regexp.MustCompile"] = func(in *Interp, th *Thread, fn *ssa.Function, a []Value) (Value, stubStatus) {
		p, err := compile(in, fn, a)
		if err != nil {
			in.goPanic(th, "regexp: MustCompile: "+err.Error())
			return nil, stPanicked
		}
		return p, stDone
	}
	s["regexp.QuoteMeta"] = func(in *Interp, th *Thread, fn *ssa.Function, a []Value) (Value, stubStatus) {
		return constStr(regexp.QuoteMeta(conc(a[0], "QuoteMeta")), tb), stDone
	}
	host := func(in *Interp, v Value) *regexp.Regexp {
		p := v.(Ptr)
		re := in.hostRegexps[p.c]
		if re == nil {
			panic(in.unsupported("regexp object not created by regexp.Compile"))
		}
		return re
	}
	s["(*regexp.Regexp).MatchString"] = func(in *Interp, th *Thread, fn *ssa.Function, a []Value) (Value, stubStatus) {
		return tb.Bool(host(in, a[0]).MatchString(conc(a[1], "MatchString"))), stDone
	}
	s["(*regexp.Regexp).NumSubexp"] = func(in *Interp, th *Thread, fn *ssa.Function, a []Value) (Value, stubStatus) {
		return tb.Const(uint64(host(in, a[0]).NumSubexp()), 64), stDone
	}
	s["(*regexp.Regexp).String"] = func(in *Interp, th *Thread, fn *ssa.Function, a []Value) (Value, stubStatus) {
		return constStr(host(in, a[0]).String(), tb), stDone
	}
	s["(*regexp.Regexp).FindStringSubmatchIndex"] = func(in *Interp, th *Thread, fn *ssa.Function, a []Value) (Value, stubStatus) {
		idx := host(in, a[0]).FindStringSubmatchIndex(conc(a[1], "FindStringSubmatchIndex"))
		if idx == nil {
			return SliceV{}, stDone
		}
		arr := in.newArrayCell(types.Typ[types.Int], len(idx), "submatch")
		for i, v := range idx {
			arr.kids[i].v = tb.Const(uint64(int64(v)), 64)
		}
		return SliceV{arr: arr, len: len(idx), cap: len(idx)}, stDone
	}
	s["strings.SplitN"] = func(in *Interp, th *Thread, fn *ssa.Function, a []Value) (Value, stubStatus) {
		n := in.intTerm(a[2])
		if n.op != OpConst {
			panic(in.unsupported("strings.SplitN with symbolic n"))
		}
		parts := strings.SplitN(conc(a[0], "SplitN"), conc(a[1], "SplitN"), int(sx(n.val, 64)))
		arr := in.newArrayCell(types.Typ[types.String], len(parts), "SplitN")
		for i, p := range parts {
			arr.kids[i].v = constStr(p, tb)
		}
		return SliceV{arr: arr, len: len(parts), cap: len(parts)}, stDone
	}
}
