package main

import (
	"fmt"
	"go/token"
	"go/types"
	"math"

	"golang.org/x/tools/go/ssa"
)

func (in *Interp) binop(op token.Token, xt types.Type, x, y Value, yt types.Type) Value {
	tb := in.tb
	switch a := x.(type) {
	case *Term:
		b, ok := y.(*Term)
		if !ok {
			panic(in.unsupported(fmt.Sprintf("binop %v on term and %T", op, y)))
		}
		if a.w == 0 { // bool
			switch op {
			case token.EQL:
				return tb.Eq(a, b)
			case token.NEQ:
				return tb.BNot(tb.Eq(a, b))
			case token.AND, token.LAND:
				return tb.BAnd(a, b)
			case token.OR, token.LOR:
				return tb.BOr(a, b)
			}
			panic(in.unsupported("bool binop " + op.String()))
		}
		_, signed, _ := typeWidth(xt)
		switch op {
		case token.SHL, token.SHR:
			// bring the shift count to the width of x, saturating
			cnt := b
			if b.w > a.w {
				big := tb.Cmp(OpUle, tb.Const(uint64(a.w), b.w), b)
				low := tb.Extract(b, a.w-1, 0)
				cnt = tb.Ite(big, tb.Const(uint64(a.w), a.w), low)
			} else if b.w < a.w {
				cnt = tb.ZExt(b, a.w)
			}
			if op == token.SHL {
				return tb.Bin(OpShl, a, cnt)
			}
			if signed {
				return tb.Bin(OpAShr, a, cnt)
			}
			return tb.Bin(OpLShr, a, cnt)
		}
		if a.w != b.w {
			panic(in.unsupported(fmt.Sprintf("binop %v width mismatch %d/%d", op, a.w, b.w)))
		}
		switch op {
		case token.ADD:
			return tb.Bin(OpAdd, a, b)
		case token.SUB:
			return tb.Bin(OpSub, a, b)
		case token.MUL:
			return tb.Bin(OpMul, a, b)
		case token.QUO, token.REM:
			// division by zero is checked by the caller through divCheck (see exec); here total semantics
			if signed {
				if op == token.QUO {
					return tb.Bin(OpSDiv, a, b)
				}
				return tb.Bin(OpSRem, a, b)
			}
			if op == token.QUO {
				return tb.Bin(OpUDiv, a, b)
			}
			return tb.Bin(OpURem, a, b)
		case token.AND:
			return tb.Bin(OpAnd, a, b)
		case token.OR:
			return tb.Bin(OpOr, a, b)
		case token.XOR:
			return tb.Bin(OpXor, a, b)
		case token.AND_NOT:
			return tb.Bin(OpAnd, a, tb.Not(b))
		case token.EQL:
			return tb.Eq(a, b)
		case token.NEQ:
			return tb.BNot(tb.Eq(a, b))
		case token.LSS:
			if signed {
				return tb.Cmp(OpSlt, a, b)
			}
			return tb.Cmp(OpUlt, a, b)
		case token.LEQ:
			if signed {
				return tb.Cmp(OpSle, a, b)
			}
			return tb.Cmp(OpUle, a, b)
		case token.GTR:
			if signed {
				return tb.Cmp(OpSlt, b, a)
			}
			return tb.Cmp(OpUlt, b, a)
		case token.GEQ:
			if signed {
				return tb.Cmp(OpSle, b, a)
			}
			return tb.Cmp(OpUle, b, a)
		}
	case FloatV:
		b, ok := y.(FloatV)
		if !ok {
			break
		}
		switch op {
		case token.ADD:
			return a + b
		case token.SUB:
			return a - b
		case token.MUL:
			return a * b
		case token.QUO:
			return a / b
		case token.EQL:
			return tb.Bool(a == b)
		case token.NEQ:
			return tb.Bool(a != b)
		case token.LSS:
			return tb.Bool(a < b)
		case token.LEQ:
			return tb.Bool(a <= b)
		case token.GTR:
			return tb.Bool(a > b)
		case token.GEQ:
			return tb.Bool(a >= b)
		}
	case StrV:
		b, ok := y.(StrV)
		if !ok {
			break
		}
		switch op {
		case token.ADD:
			nb := make([]*Term, 0, len(a.b)+len(b.b))
			nb = append(nb, a.b...)
			nb = append(nb, b.b...)
			return StrV{nb}
		case token.EQL:
			return in.valuesEqual(a, b)
		case token.NEQ:
			return tb.BNot(in.valuesEqual(a, b))
		case token.LSS, token.LEQ, token.GTR, token.GEQ:
			sa, oka := a.concrete()
			sb, okb := b.concrete()
			if oka && okb {
				switch op {
				case token.LSS:
					return tb.Bool(sa < sb)
				case token.LEQ:
					return tb.Bool(sa <= sb)
				case token.GTR:
					return tb.Bool(sa > sb)
				default:
					return tb.Bool(sa >= sb)
				}
			}
			panic(in.unsupported("ordering of symbolic strings"))
		}
	}
	switch op {
	case token.EQL:
		return in.valuesEqual(x, y)
	case token.NEQ:
		return tb.BNot(in.valuesEqual(x, y))
	}
	panic(in.unsupported(fmt.Sprintf("binop %v on %T, %T", op, x, y)))
}

// valuesEqual is Go's == as a boolean term.
func (in *Interp) valuesEqual(x, y Value) *Term {
	tb := in.tb
	switch a := x.(type) {
	case *Term:
		b, ok := y.(*Term)
		if !ok || a.w != b.w {
			return tb.F
		}
		return tb.Eq(a, b)
	case StrV:
		b, ok := y.(StrV)
		if !ok || len(a.b) != len(b.b) {
			return tb.F
		}
		r := tb.T
		for i := range a.b {
			r = tb.BAnd(r, tb.Eq(a.b[i], b.b[i]))
			if r.op == OpFalse {
				break
			}
		}
		return r
	case StructV:
		b, ok := y.(StructV)
		if !ok || len(a.f) != len(b.f) {
			return tb.F
		}
		r := tb.T
		for i := range a.f {
			r = tb.BAnd(r, in.valuesEqual(a.f[i], b.f[i]))
		}
		return r
	case ArrayV:
		b, ok := y.(ArrayV)
		if !ok || len(a.e) != len(b.e) {
			return tb.F
		}
		r := tb.T
		for i := range a.e {
			r = tb.BAnd(r, in.valuesEqual(a.e[i], b.e[i]))
		}
		return r
	case Ptr:
		b, ok := y.(Ptr)
		if !ok {
			return tb.F
		}
		if a.c != nil || b.c != nil || (a.arr == nil && b.arr == nil) {
			return tb.Bool(a.c == b.c && a.arr == b.arr)
		}
		if a.arr == nil || b.arr == nil {
			return tb.F
		}
		if a.arr.obj == b.arr.obj && len(a.arr.kids) > 0 && len(b.arr.kids) > 0 && &a.arr.kids[0] == &b.arr.kids[0] {
			return tb.Eq(a.idx, b.idx)
		}
		return tb.F
	case IfaceV:
		b, ok := y.(IfaceV)
		if !ok {
			return tb.F
		}
		if a.t == nil || b.t == nil {
			return tb.Bool(a.t == nil && b.t == nil)
		}
		if !types.Identical(a.t, b.t) {
			return tb.F
		}
		return in.valuesEqual(a.v, b.v)
	case SliceV: // only comparable with nil
		b, _ := y.(SliceV)
		return tb.Bool(a.arr == nil && b.arr == nil)
	case *MapObj:
		b, _ := y.(*MapObj)
		return tb.Bool(a == b)
	case *ChanObj:
		b, _ := y.(*ChanObj)
		return tb.Bool(a == b)
	case FuncV:
		b, _ := y.(FuncV)
		return tb.Bool(a.IsNil() && b.IsNil())
	case FloatV:
		b, ok := y.(FloatV)
		return tb.Bool(ok && a == b)
	case nil:
		return tb.Bool(y == nil)
	}
	panic(in.unsupported(fmt.Sprintf("== on %T, %T", x, y)))
}

func (in *Interp) unop(x *ssa.UnOp, v Value) Value {
	tb := in.tb
	switch x.Op {
	case token.NOT:
		return tb.BNot(v.(*Term))
	case token.SUB:
		if f, ok := v.(FloatV); ok {
			return -f
		}
		return tb.Neg(v.(*Term))
	case token.XOR:
		return tb.Not(v.(*Term))
	case token.MUL:
		p := v.(Ptr)
		if p.IsNil() {
			in.goPanic(in.cur, "runtime error: invalid memory address or nil pointer dereference (load)")
			return nil
		}
		return in.loadPtr(p, in.cur.top())
	}
	panic(in.unsupported("unop " + x.Op.String()))
}

func (in *Interp) convert(from, to types.Type, v Value) Value {
	tb := in.tb
	fu, tu := from.Underlying(), to.Underlying()
	if fw, fsigned, ok := typeWidth(fu); ok && fw > 0 {
		if tw, _, ok2 := typeWidth(tu); ok2 && tw > 0 {
			t := in.intTerm(v)
			if tw == fw {
				return t
			}
			if tw < fw {
				return tb.Extract(t, tw-1, 0)
			}
			if fsigned {
				return tb.SExt(t, tw)
			}
			return tb.ZExt(t, tw)
		}
		if tb2, ok2 := tu.(*types.Basic); ok2 {
			if tb2.Info()&types.IsFloat != 0 {
				t := in.intTerm(v)
				if t.op != OpConst {
					panic(in.unsupported("symbolic int to float"))
				}
				if fsigned {
					return FloatV(float64(sx(t.val, fw)))
				}
				return FloatV(float64(t.val))
			}
			if tb2.Info()&types.IsString != 0 {
				t := in.intTerm(v)
				if t.op != OpConst {
					panic(in.unsupported("symbolic rune to string"))
				}
				return constStr(string(rune(sx(t.val, fw))), tb)
			}
			if tb2.Kind() == types.UnsafePointer {
				panic(in.unsupported("uintptr to unsafe.Pointer"))
			}
		}
	}
	if fb, ok := fu.(*types.Basic); ok {
		if fb.Info()&types.IsFloat != 0 {
			f := float64(v.(FloatV))
			if tw, tsigned, ok2 := typeWidth(tu); ok2 && tw > 0 {
				if tsigned {
					return tb.Const(uint64(int64(f)), tw)
				}
				return tb.Const(uint64(f), tw)
			}
			if tb2, ok2 := tu.(*types.Basic); ok2 && tb2.Info()&types.IsFloat != 0 {
				if tb2.Kind() == types.Float32 {
					return FloatV(float64(float32(f)))
				}
				return FloatV(f)
			}
		}
		if fb.Info()&types.IsString != 0 {
			s := v.(StrV)
			if ts, ok2 := tu.(*types.Slice); ok2 {
				if w, _, _ := typeWidth(ts.Elem()); w == 8 {
					arr := in.newArrayCell(ts.Elem(), len(s.b), "[]byte(string)")
					for i, t := range s.b {
						arr.kids[i].v = t
					}
					return SliceV{arr: arr, off: 0, len: len(s.b), cap: len(s.b)}
				}
				// []rune
				cs, okc := s.concrete()
				if !okc {
					panic(in.unsupported("[]rune of symbolic string"))
				}
				rs := []rune(cs)
				arr := in.newArrayCell(ts.Elem(), len(rs), "[]rune(string)")
				for i, r := range rs {
					arr.kids[i].v = tb.Const(uint64(r), 32)
				}
				return SliceV{arr: arr, off: 0, len: len(rs), cap: len(rs)}
			}
			if tb2, ok2 := tu.(*types.Basic); ok2 && tb2.Info()&types.IsString != 0 {
				return s
			}
		}
		if fb.Kind() == types.UnsafePointer {
			return v
		}
	}
	if fs, ok := fu.(*types.Slice); ok {
		if tb2, ok2 := tu.(*types.Basic); ok2 && tb2.Info()&types.IsString != 0 {
			s := v.(SliceV)
			w, _, _ := typeWidth(fs.Elem())
			if w == 8 {
				b := make([]*Term, s.len)
				for i := 0; i < s.len; i++ {
					b[i] = s.arr.kids[s.off+i].v.(*Term)
				}
				if s.len > 0 {
					in.ghostAccess(s.arr, in.cur.top())
				}
				return StrV{b}
			}
			// []rune -> string
			rs := make([]rune, s.len)
			for i := 0; i < s.len; i++ {
				t := s.arr.kids[s.off+i].v.(*Term)
				if t.op != OpConst {
					panic(in.unsupported("string of symbolic []rune"))
				}
				rs[i] = rune(t.val)
			}
			return constStr(string(rs), tb)
		}
		if _, ok2 := tu.(*types.Slice); ok2 {
			return v
		}
	}
	if _, ok := fu.(*types.Pointer); ok {
		return v // pointer <-> unsafe.Pointer, pointer conversions
	}
	if tb2, ok := tu.(*types.Basic); ok && tb2.Kind() == types.UnsafePointer {
		return v
	}
	panic(in.unsupported(fmt.Sprintf("convert %v -> %v", from, to)))
}

var _ = math.MaxInt64
