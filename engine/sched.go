package main

// Threads, scheduling decisions, channels, select, mutexes.

import (
	"fmt"
	"go/types"

	"golang.org/x/tools/go/ssa"
)

func (in *Interp) liveThreads() int {
	n := 0
	for _, t := range in.threads {
		if !t.done {
			n++
		}
	}
	return n
}

// visible marks a scheduling point. It returns true when the operation may be performed now.
func (in *Interp) visible(th *Thread, f *Frame, desc string, enabled func() bool) bool {
	if th.id >= 0 && !th.granted && !in.userContext(th) && desc != "symYield" && desc != "symIdle" && desc != "symWaitUntil" {
		// inside un-instrumented library code (context, ...): not a scheduling point unless it has to block
		if enabled == nil || enabled() {
			return true
		}
		in.note("model:blocking-inside-library:" + desc)
	}
	if th.granted {
		th.granted = false
		in.schedTrace = append(in.schedTrace, th.id)
		if in.cfg.Debug {
			fmt.Printf("  [sched] T%d %s @%s\n", th.id, desc, in.fset.Position(f.block.Instrs[f.ip].Pos()))
		}
		return true
	}
	if th.id < 0 || in.liveThreads() <= 1 {
		if enabled == nil || enabled() {
			if th.id >= 0 {
				in.schedTrace = append(in.schedTrace, th.id)
				if in.cfg.Debug {
					fmt.Printf("  [sched1] T%d %s @%s\n", th.id, desc, in.fset.Position(f.block.Instrs[f.ip].Pos()))
				}
			}
			return true
		}
		if th.id < 0 {
			if th.name == "waituntil" {
				panic(waitBlocked{})
			}
			panic(in.unsupported("blocking operation in package initialiser"))
		}
		panic(abort{abDeadlock, "thread " + th.name + " blocks forever at " + desc + " (no other thread)"})
	}
	th.atVisible = true
	th.enabled = enabled
	th.opDesc = desc
	return false
}

type waitBlocked struct{}

// schedule picks the next thread to run; returns nil when nothing can run.
func (in *Interp) schedule() *Thread {
	var cands []*Thread
	cur := in.cur
	curEnabled := false
	for _, t := range in.threads {
		if t.done {
			continue
		}
		if !t.atVisible {
			// running thread that has not reached a visible operation (only the current one can be)
			if t == cur {
				return t
			}
			continue
		}
		if t.enabled == nil || t.enabled() {
			if t == cur {
				curEnabled = true
			} else {
				cands = append(cands, t)
			}
		}
	}
	if curEnabled {
		cands = append([]*Thread{cur}, cands...)
		lim := in.cfg.Preempt
		if in.preemptLim >= 0 && in.preemptLim < lim {
			lim = in.preemptLim
		}
		if in.preempts >= lim {
			cands = cands[:1]
		}
	}
	if len(cands) == 0 {
		return nil
	}
	i := 0
	if !in.canonical {
		i = in.decide("sched", len(cands))
	}
	t := cands[i]
	if curEnabled && t != cur {
		in.preempts++
	}
	t.atVisible = false
	t.granted = true
	t.enabled = nil
	if t.opDesc == "start" {
		// a new thread is released: recorded as its own event, the first instruction is not a visible operation
		in.schedTrace = append(in.schedTrace, t.id)
		if in.cfg.Debug {
			fmt.Printf("  [sched] T%d start\n", t.id)
		}
		t.granted = false
		t.opDesc = ""
	}
	return t
}

// runMain drives all threads until the main thread (threads[0]) finishes.
func (in *Interp) runMain() {
	main := in.threads[0]
	in.cur = main
	for !main.done {
		th := in.cur
		if th.done || th.atVisible {
			nt := in.schedule()
			if nt == nil {
				var desc string
				for _, t := range in.threads {
					if !t.done {
						desc += fmt.Sprintf(" [T%d %s blocked at %s]", t.id, t.name, t.opDesc)
					}
				}
				panic(abort{abDeadlock, "no runnable thread:" + desc})
			}
			in.cur = nt
			th = nt
		}
		in.step(th)
	}
}

// runSyncLoop runs th until its stack shrinks to depth (used for init functions).
func (in *Interp) runSyncLoop(th *Thread, depth int) {
	for len(th.frames) > depth {
		if th.atVisible {
			if th.enabled != nil && !th.enabled() {
				panic(in.unsupported("blocking operation inside synchronous call"))
			}
			th.atVisible = false
			th.granted = true
		}
		in.step(th)
	}
}

// ---------- channels ----------

// waitingOn reports whether thread t is parked at an operation on ch of the given direction.
type chanWait struct {
	ch   *ChanObj
	send bool
	val  Value
	// completion callbacks executed when a partner performs the rendezvous
	complete func(v Value, ok bool)
}

func (in *Interp) chanRecvReady(ch *ChanObj) bool {
	if ch == nil {
		return false
	}
	return len(ch.buf) > 0 || ch.closed
}

func (in *Interp) chanSendReady(ch *ChanObj) bool {
	if ch == nil {
		return false
	}
	return ch.closed || len(ch.buf) < ch.cap
}

// Unbuffered channels are modelled with capacity 1 plus a rendezvous flag: the sender blocks until the value has
// been taken. To keep the engine simple the hand-off is approximated as a one-slot buffer whose sender does not
// continue until the slot is empty again.
func (in *Interp) execRecv(th *Thread, f *Frame, x *ssa.UnOp) {
	ch := in.get(f, x.X).(*ChanObj)
	if !in.visible(th, f, "recv", func() bool { return in.chanRecvReady(ch) }) {
		return
	}
	v, ok := in.chanTake(ch)
	in.raceAcqRel(ch)
	if x.CommaOk {
		f.env[x] = TupleV{v, in.tb.Bool(ok)}
	} else {
		f.env[x] = v
	}
	f.ip++
}

func (in *Interp) chanTake(ch *ChanObj) (Value, bool) {
	if len(ch.buf) > 0 {
		v := ch.buf[0]
		ch.buf = ch.buf[1:]
		return v, true
	}
	if ch.closed {
		return in.zero(ch.et), false
	}
	panic(in.unsupported("chanTake on empty open channel"))
}

func (in *Interp) effCap(ch *ChanObj) int {
	if ch.cap == 0 {
		return 1
	}
	return ch.cap
}

func (in *Interp) execSend(th *Thread, f *Frame, x *ssa.Send) {
	ch := in.get(f, x.Chan).(*ChanObj)
	// phase 2 of an unbuffered send: wait until the receiver has taken the value
	if th.sendWait == ch && ch != nil {
		if !in.visible(th, f, "send-handoff", func() bool { return len(ch.buf) == 0 }) {
			return
		}
		th.sendWait = nil
		in.raceAcquire(ch)
		f.ip++
		return
	}
	if !in.visible(th, f, "send", func() bool { return ch != nil && (ch.closed || len(ch.buf) < in.effCap(ch)) }) {
		return
	}
	if ch.closed {
		in.goPanic(th, "send on closed channel")
		return
	}
	in.raceRelease(ch)
	ch.buf = append(ch.buf, in.get(f, x.X))
	if ch.cap == 0 && in.liveThreads() > 1 {
		th.sendWait = ch
		return // re-executed for the hand-off phase
	}
	f.ip++
}

func (in *Interp) chanClose(th *Thread, f *Frame, ch *ChanObj) (Value, bool) {
	if !in.visible(th, f, "close", nil) {
		return nil, false
	}
	if ch == nil {
		in.goPanic(th, "close of nil channel")
		return nil, false
	}
	if ch.closed {
		in.goPanic(th, "close of closed channel")
		return nil, false
	}
	in.raceRelease(ch)
	ch.closed = true
	return nil, true
}

func (in *Interp) execSelect(th *Thread, f *Frame, x *ssa.Select) {
	type st struct {
		ch   *ChanObj
		send bool
	}
	states := make([]st, len(x.States))
	for i, s := range x.States {
		ch, _ := in.get(f, s.Chan).(*ChanObj)
		states[i] = st{ch, s.Dir == types.SendOnly}
	}
	ready := func() []int {
		var r []int
		for i, s := range states {
			if s.ch == nil {
				continue
			}
			if s.send {
				if s.ch.closed || len(s.ch.buf) < in.effCap(s.ch) {
					r = append(r, i)
				}
			} else if in.chanRecvReady(s.ch) {
				r = append(r, i)
			}
		}
		return r
	}
	if !in.visible(th, f, "select", func() bool { return !x.Blocking || len(ready()) > 0 }) {
		return
	}
	r := ready()
	// result tuple: (index int, recvOk bool, r_0 T_0, ... r_n-1 T_n-1) for the receive states
	tup := x.Type().(*types.Tuple)
	res := make(TupleV, tup.Len())
	for i := 2; i < tup.Len(); i++ {
		res[i] = in.zero(tup.At(i).Type())
	}
	res[1] = in.tb.F
	recordSel := th.id >= 0 && in.userContext(th)
	if len(r) == 0 {
		if recordSel {
			in.selTrace = append(in.selTrace, -1)
		}
		res[0] = in.tb.Const(^uint64(0), 64)
		f.env[x] = res
		f.ip++
		return
	}
	k := r[in.decide("select", len(r))]
	if recordSel {
		in.selTrace = append(in.selTrace, k)
	}
	res[0] = in.tb.Const(uint64(k), 64)
	if states[k].send {
		if states[k].ch.closed {
			in.goPanic(th, "send on closed channel (select)")
			return
		}
		in.raceRelease(states[k].ch)
		states[k].ch.buf = append(states[k].ch.buf, in.get(f, x.States[k].Send))
	} else {
		v, ok := in.chanTake(states[k].ch)
		in.raceAcqRel(states[k].ch)
		res[1] = in.tb.Bool(ok)
		ri := 2
		for i, s := range x.States {
			if s.Dir == types.RecvOnly {
				if i == k {
					res[ri] = v
				}
				ri++
			}
		}
	}
	f.env[x] = res
	f.ip++
}

// ---------- mutexes ----------

func (in *Interp) mutex(c *Cell) *mutexState {
	m, ok := in.mutexes[c]
	if !ok {
		m = &mutexState{}
		in.mutexes[c] = m
	}
	return m
}
